"""C06, tool part: bigwiginfo / bigbedinfo print the whole-file statistics of files written by the CLI writers."""
import math
import os
import random
import struct
import subprocess

import build
import pyleg


def _f32(x):
    return struct.unpack("f", struct.pack("f", x))[0]


def _run(cmd, timeout=60):
    return subprocess.run(cmd, capture_output=True, text=True, timeout=timeout)


def _parse(txt):
    d = {}
    for line in txt.splitlines():
        if ":" in line and not line.startswith("\t"):
            k, v = line.split(":", 1)
            d[k.strip()] = v.strip()
    return d


def legs(tier, seed, scratch):
    def run(leg):
        L = pyleg.PyLeg("c06-info-tools", cmd="c06tool", seed=seed, tier=tier)
        n = 60 if tier == "quick" else 800
        for i in range(n):
            rng = random.Random("%s:%s" % (seed, i))
            d = os.path.join(scratch, "c06_%d" % i)
            os.makedirs(d, exist_ok=True)
            is_bw = i % 2 == 0
            chroms = sorted(rng.sample(["chr1", "chr10", "chr2", "chrX", "a", "Z"], rng.randint(1, 4)))
            sizes = {c: rng.randint(60, 3000) for c in chroms}
            open(os.path.join(d, "s.txt"), "w").write("".join("%s\t%d\n" % (c, sizes[c]) for c in chroms))
            lines = []
            bases = 0
            s1 = s2 = 0.0
            mn, mx = math.inf, -math.inf
            nitems = 0
            if is_bw:
                for c in chroms:
                    pos = rng.randint(0, 20)
                    while pos < sizes[c] - 12 and rng.random() < 0.93:
                        ln = rng.randint(1, 10)
                        v = _f32(rng.choice([1.0, 2.5, -0.5, 0.25, 3.0, -2.0, 10.0]) if rng.random() < 0.7 else rng.uniform(-50, 50))
                        lines.append("%s\t%d\t%d\t%r\n" % (c, pos, pos + ln, v))
                        bases += ln
                        s1 += ln * v
                        s2 += ln * v * v
                        mn, mx = min(mn, v), max(mx, v)
                        pos += ln + rng.choice([0, 0, 1, 5, 40])
                tool_w, tool_i, inp, outp = "bedgraphtobigwig", "bigwiginfo", "i.bedGraph", "o.bw"
            else:
                for c in chroms:
                    depth = [0] * (sizes[c] + 60)
                    pos = rng.randint(0, 20)
                    while pos < sizes[c] - 2 and rng.random() < 0.93:
                        ln = rng.randint(1, 40)
                        lines.append("%s\t%d\t%d\tn%d\n" % (c, pos, pos + ln, nitems))
                        nitems += 1
                        for p in range(pos, pos + ln):
                            depth[p] += 1
                        pos += rng.choice([0, 0, 1, 3, 10, 60])
                    for dp in depth:
                        if dp:
                            bases += 1
                            s1 += dp
                            s2 += dp * dp
                            mn, mx = min(mn, dp), max(mx, dp)
                tool_w, tool_i, inp, outp = "bedtobigbed", "bigbedinfo", "i.bed", "o.bb"
            if not lines:
                continue
            open(os.path.join(d, inp), "w").write("".join(lines))
            flags = rng.choice([[], ["--single-pass"], ["-t", "1"], ["--uncompressed"], ["--inmemory"], ["--block-size", "4", "--items-per-slot", "3"]])
            desc = dict(kind="bigwig" if is_bw else "bigbed", flags=flags, chroms=sizes, lines=len(lines), first_lines=lines[:4])
            viol = []
            try:
                w = _run([build.bin_path(tool_w), os.path.join(d, inp), os.path.join(d, "s.txt"), os.path.join(d, outp)] + flags)
                if w.returncode != 0 or not os.path.exists(os.path.join(d, outp)):
                    L.case(desc, blocked="C16", tags=[tool_w])
                    continue
                r = _run([build.bin_path(tool_i), os.path.join(d, outp)])
            except subprocess.TimeoutExpired:
                L.case(desc, violations=[("no_progress", tool_i, dict(flags=flags))])
                continue
            if r.returncode != 0:
                viol.append(("info_tool_failed", tool_i, dict(rc=r.returncode, stderr=r.stderr[-400:])))
            else:
                p = _parse(r.stdout)
                keys = ("mean", "min", "max", "std") if is_bw else ("meanDepth", "minDepth", "maxDepth", "std of depth")
                try:
                    got_bases = int(p["basesCovered"].replace(",", ""))
                    got = [float(p[k]) for k in keys]
                except Exception as e:
                    viol.append(("info_output_unparsable", tool_i, dict(error=str(e), stdout=r.stdout[:600])))
                    got = None
                if got is not None:
                    mean = s1 / bases
                    var = (s2 - s1 * s1 / bases) / (bases - 1) if bases > 1 else float("nan")
                    std = math.sqrt(var) if var == var and var >= 0 else float("nan")
                    want = [mean, mn, mx, std]
                    detail = dict(got_bases=got_bases, want_bases=bases, got=got, want=want, stdout=r.stdout[:500])
                    if got_bases != bases:
                        viol.append(("bases_covered_wrong", tool_i, detail))
                    for k, g, w_ in zip(keys, got, want):
                        if w_ != w_:
                            continue
                        tol = 5.1e-7 + 1e-6 * abs(w_)
                        if k.startswith("std"):
                            tol = 2e-5 + 1e-5 * abs(w_)  # cancellation in sumsq - sum^2/n
                        if abs(g - w_) > tol:
                            viol.append(("statistic_wrong", "%s:%s" % (tool_i, k.split()[0]), detail))
                    if not is_bw and "itemCount" in p and int(p["itemCount"].replace(",", "")) != nitems:
                        viol.append(("item_count_wrong", tool_i, dict(got=p["itemCount"], want=nitems)))
            L.case(desc, nontrivial=len(chroms) >= 2 or len(lines) > 3, tags=[tool_i] + flags[:1], violations=viol, counts={"info_runs": 1})
            for fn in os.listdir(d):
                os.remove(os.path.join(d, fn))
            os.rmdir(d)
        return L.done()
    return [dict(name="c06-info-tools", run=run)]
