#!/usr/bin/env python3
"""Apply a seeded change to /repo, run checks against it, undo it.

usage: seedtest.py <seed dir containing patch.diff> [--tier quick|thorough] [--props C01,C05,...] [--seeds 1,2]
Prints one line per (property, seed): exit code and the VIOLATION signatures seen.
/repo is restored (git checkout -- .) even on failure.
"""
import json
import os
import subprocess
import sys
import time


def sh(cmd, **kw):
    return subprocess.run(cmd, shell=True, capture_output=True, text=True, **kw)


def main():
    d = sys.argv[1]
    tier = "quick"
    props = None
    seeds = [1]
    a = sys.argv[2:]
    while a:
        if a[0] == "--tier":
            tier = a[1]
        elif a[0] == "--props":
            props = a[1].split(",")
        elif a[0] == "--seeds":
            seeds = [int(x) for x in a[1].split(",")]
        a = a[2:]
    meta = json.load(open(os.path.join(d, "meta.json"))) if os.path.exists(os.path.join(d, "meta.json")) else {}
    if props is None:
        props = [meta.get("property")]
    st = sh("git -C /repo status --porcelain --untracked-files=no")
    if st.stdout.strip():
        print("refusing: /repo has uncommitted changes:\n" + st.stdout)
        return 2
    ap = sh("git -C /repo apply --whitespace=nowarn %s" % os.path.abspath(os.path.join(d, "patch.diff")))
    if ap.returncode != 0:
        print("patch does not apply:", ap.stderr[:500])
        return 2
    results = []
    try:
        for p in props:
            for s in seeds:
                t0 = time.time()
                r = sh("cd /verif && VERIF_SEED=%d timeout 3000 ./check %s --tier %s" % (s, p, tier))
                sigs = [l.strip() for l in r.stdout.splitlines() if l.strip().startswith("signature:")]
                other = [l for l in r.stdout.splitlines() if l.startswith(("BUILD-FAILED", "CHECK-BROKEN"))]
                results.append(dict(property=p, seed=s, tier=tier, rc=r.returncode, signatures=sigs, other=other, wall_s=round(time.time() - t0, 1)))
                print("%s seed=%d tier=%s rc=%d %.0fs %s %s" % (p, s, tier, r.returncode, time.time() - t0, "; ".join(sigs)[:400], " ".join(other)[:300]), flush=True)
    finally:
        sh("git -C /repo checkout -- .")
        left = sh("git -C /repo status --porcelain --untracked-files=no").stdout.strip()
        if left:
            print("WARNING: /repo not clean after undo:", left)
    path = os.path.join(d, "check_results_%s.json" % tier)
    old = json.load(open(path)) if os.path.exists(path) else []
    keep = [r for r in old if (r["property"], r["seed"]) not in {(x["property"], x["seed"]) for x in results}]
    json.dump(keep + results, open(path, "w"), indent=1)
    return 0


if __name__ == "__main__":
    sys.exit(main())
