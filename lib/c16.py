"""C16 -- command-line round trips, driven through the built binaries.

bedGraph -> bedgraphtobigwig -> bigwigtobedgraph and BED -> bedtobigbed -> bigbedtobed
must give back the original records, in the original order, values equal after a
float32 parse, extra columns byte-identical; a restricted output (chrom/start/end)
must be the corresponding range query (bigWig: clipped; bigBed: must / may / must-not
sets, input order).

One case = one generated input + one flag vector: forward conversion, full backward
conversion, and (often) one restricted backward conversion.  A case is a pure function
of (seed, tier, index); even indices are bedGraph cases, odd ones BED cases.

Don't-care / scope notes (the oracle demands no more than the property states):
  * no zero-length intervals are generated (C01/C02 own those findings);
  * restricted ranges always satisfy 0 <= start < end <= chromosome size and name a
    chromosome that has data;
  * the positional `overlap_bed` argument of the two *to-text* tools is outside the
    property text and is not exercised;
  * when the parallel reader refuses a sorted file the defect is reported under its own
    signature and the case is converted again with `--parallel no`, so the round trip is
    still judged.
"""
import os
import random

import clitext as ct
import props
import pyleg

KIND = "c16"
N_CASES = {"quick": 800, "thorough": 24000}

CHROM_POOL = ["chr1", "chr10", "chr2", "chrX", "chrM", "a", "Z", "chr1_gl000191_random", "chrUn", "1", "MT", "chr22"]
UTF8_CHROMS = ["chrΩ", "染色体7", "chréé"]
UNUSED_CHROMS = ["chrY", "chrUnused", "zz_extra", "chr1_alt", "B"]

FWD_TOOL = {"bedgraph": "bedgraphtobigwig", "bed": "bedtobigbed"}
BWD_TOOL = {"bedgraph": "bigwigtobedgraph", "bed": "bigbedtobed"}
UCSC_NAME = {"bedgraphtobigwig": "bedGraphToBigWig", "bedtobigbed": "bedToBigBed", "bigwigtobedgraph": "bigWigToBedGraph", "bigbedtobed": "bigBedToBed"}


# ------------------------------------------------------------ generators --
STALE = "".join("chrOld\t%d\t%d\t0.5\tstale\n" % (i, i + 1) for i in range(6000))  # ~150 KB of an earlier output


def _nlines(rng, tier):
    if tier == "quick":
        return rng.choice([1, 2, 3, 5, 8, 13, 30])
    return rng.choice([1, 2, 3, 5, 8, 13, 30, 60, 150, 400])


def _disjoint(rng, size, n):
    out = []
    pos = 0 if rng.random() < 0.4 else rng.randint(0, size // 4)
    maxlen = max(1, size // max(1, n))
    for _ in range(n):
        gap = 0
        if out and rng.random() >= 0.25:
            gap = rng.randint(1, max(1, maxlen // 2))
        s = pos + gap
        if s >= size:
            break
        ln = rng.choice([1, 1, rng.randint(1, maxlen), rng.randint(1, maxlen * 2)])
        e = min(size, s + ln)
        out.append((s, e))
        pos = e
    if out and rng.random() < 0.2:
        out[-1] = (out[-1][0], size)
    return out


def _start_sorted(rng, size, n):
    out = []
    s = 0 if rng.random() < 0.4 else rng.randint(0, size // 4)
    step = max(1, size // max(1, n))
    for _ in range(n):
        if out:
            s += rng.choice([0, 0, 1, rng.randint(0, step), rng.randint(0, 2 * step)])
        if s >= size:
            break
        ln = rng.choice([1, rng.randint(1, step), rng.randint(1, 4 * step), size])
        out.append((s, min(size, s + ln)))
    return out


def _value_text(rng):
    k = rng.random()
    if k < 0.3:
        v = rng.randint(-40, 40) / 8.0
    elif k < 0.6:
        v = rng.uniform(-1000, 1000)
    elif k < 0.7:
        v = rng.choice([3e-5, 1.5e10, -2.5e-12, 16777217.0, 0.1, 1.0 / 3.0, -1e-38])
    elif k < 0.8:
        v = float(rng.randint(-5, 100))
    elif k < 0.85:
        return rng.choice(["0", "0.0"])
    else:
        v = rng.gauss(0, 1)
    return ct.fmt_f32(v)


def _pad_value(txt, pad):
    if "e" in txt or "E" in txt or "n" in txt:
        txt = "1.5"
    if "." not in txt:
        txt += "."
    return txt + "0" * pad


_ASCII = "ABCDEFGHIJKLMNOPQRSTUVWXYZabcdefghijklmnopqrstuvwxyz0123456789_-#%\"\\/:;()[]{}*&^$@!~`'<>?|=+,."


def _col(rng, utf8, allow_empty, width=None):
    if width:
        return "".join(rng.choice(_ASCII[:62]) for _ in range(width))
    k = rng.random()
    if k < 0.3:
        return "name%d" % rng.randint(0, 99999)
    if k < 0.45:
        return str(rng.randint(0, 1000))
    if k < 0.55:
        return rng.choice("+-.")
    if k < 0.63:
        return "255,0,%d" % rng.randint(0, 255)
    if k < 0.71:
        return rng.choice(["two words", "a  b", "x y z"])
    if k < 0.80 and utf8:
        return rng.choice(["é", "名前", "Ωmega", "naïve", "\U0001F9EC"])
    if k < 0.84 and allow_empty:
        return ""
    return "".join(rng.choice(_ASCII) for _ in range(rng.randint(1, 12)))


def gen_input(rng, kind, tier):
    nchrom = rng.randint(2, 6)
    names = rng.sample(CHROM_POOL, nchrom)
    feats = []
    utf8_chrom = rng.random() < 0.10
    if utf8_chrom:
        names[rng.randrange(nchrom)] = rng.choice(UTF8_CHROMS)
        feats.append("utf8_chrom_name")
    utf8_cols = kind == "bed" and rng.random() < 0.10
    names.sort(key=lambda s: s.encode("utf-8"))
    sizes = {}
    for nme in names:
        sizes[nme] = rng.choice([100, 1000, 5000, 100000, rng.randint(100, 100000)])
    single_last = rng.random() < 0.25
    long_first = rng.random() < 0.22
    long_run = rng.randint(1, nchrom - 1) if long_first else None
    ncol = rng.randint(0, 9) if kind == "bed" else 0
    allow_empty = kind == "bed" and rng.random() < 0.06
    records = []  # (chrom, start, end, tail)
    per_chrom = []
    for ci, nme in enumerate(names):
        n = _nlines(rng, tier)
        if single_last and ci == nchrom - 1:
            n = 1
        if long_first and ci == long_run:
            n = max(n, 3)
        ivs = _disjoint(rng, sizes[nme], n) if kind == "bedgraph" else _start_sorted(rng, sizes[nme], n)
        for li, (s, e) in enumerate(ivs):
            if kind == "bedgraph":
                tail = _value_text(rng)
                if long_first and ci == long_run and li == 0:
                    tail = _pad_value(tail, rng.choice([150, 400, 2000]))
            else:
                if long_first and ci == long_run and li == 0:
                    cols = [_col(rng, False, False, width=rng.randint(8, 40)) for _ in range(20)]
                else:
                    cols = [_col(rng, utf8_cols, allow_empty and j < ncol - 1) for j in range(ncol)]
                    if cols and cols[-1].strip() == "":
                        cols[-1] = "x"
                tail = "\t".join(cols)
            records.append((nme, s, e, tail))
        per_chrom.append([nme, sizes[nme], len(ivs)])
    if utf8_cols and any(ord(ch) > 127 for r in records for ch in r[3]):
        feats.append("utf8_columns")
    lines = []
    for (nme, s, e, tail) in records:
        lines.append("%s\t%d\t%d%s" % (nme, s, e, ("\t" + tail) if (tail or kind == "bedgraph") else ""))
    final_newline = rng.random() < 0.5
    text = "\n".join(lines) + ("\n" if final_newline else "")
    # chrom.sizes with unused extras, shuffled, mixed separators
    extra = rng.sample(UNUSED_CHROMS, rng.randint(0, 3))
    entries = [(nme, sizes[nme]) for nme in names] + [(x, rng.randint(100, 100000)) for x in extra]
    rng.shuffle(entries)
    sizes_text = "\n".join("%s%s%d" % (nme, rng.choice(["\t", " "]), sz) for nme, sz in entries) + ("\n" if rng.random() < 0.8 else "")
    # structural features that the parallel indexer is suspected to mishandle (F17 / F18)
    runs = []
    for i, ln in enumerate(lines):
        ch = records[i][0]
        if not runs or runs[-1][0] != ch:
            runs.append([ch, []])
        runs[-1][1].append(len(ln.encode("utf-8")))
    if len(runs[-1][1]) == 1:
        feats.append("last_chrom_single_line")
    all_len = sorted(x for _, ls in runs for x in ls)
    med = all_len[len(all_len) // 2]
    if any(ri > 0 and ls[0] >= 3 * med and ls[0] >= 100 for ri, (_, ls) in enumerate(runs)):
        feats.append("long_first_line")
    if any(ri > 0 and ls[0] > runs[ri - 1][1][-1] for ri, (_, ls) in enumerate(runs)):
        feats.append("run_first_line_longer_than_previous_line")
    if extra:
        feats.append("unused_chroms_in_sizes")
    feats.append("final_newline" if final_newline else "no_final_newline")
    return dict(kind=kind, names=names, sizes=sizes, records=records, lines=lines, text=text, sizes_text=sizes_text, feats=feats, ncol=ncol,
                per_chrom=per_chrom, nextra=len(extra), mixed_columns=bool(long_first and kind == "bed"))


def _autosql(ncol):
    f = ['string chrom; "chrom"', 'uint chromStart; "start"', 'uint chromEnd; "end"']
    for j in range(ncol):
        f.append('lstring extra%d; "extra column %d"' % (j, j))
    return 'table verifBed\n"generated for C16"\n(\n' + "\n".join("    " + x for x in f) + "\n)\n"


def gen_opts(rng, kind, inp):
    o = {}
    o["t"] = rng.choice([1, 2, 4, 16, 1, 2, 4, 16, None])
    o["t_spelling"] = rng.choice(["-t", "--nthreads", "--nthreads="])
    o["parallel"] = rng.choice(["yes", "yes", "no", "auto", None])
    o["parallel_spelling"] = rng.choice(["--parallel", "-p"])
    o["single_pass"] = rng.random() < 0.5
    o["inmemory"] = rng.random() < 0.3
    o["unc"] = rng.choice([None, None, "--uncompressed", "-u", "-unc"])
    o["block_size"] = rng.choice([None, None, 2, 4, 64, 1024])
    o["block_size_spelling"] = rng.choice(["--block-size", "--block-size=", "-blockSize="])
    o["items_per_slot"] = rng.choice([None, None, None, 1, 3, 64])
    o["items_per_slot_spelling"] = rng.choice(["--items-per-slot", "-itemsPerSlot="])
    z = rng.random()
    if z < 0.45:
        o["zooms"] = None
    elif z < 0.7:
        o["zooms"] = ["nzooms", rng.choice([0, 1, 3, 10]), rng.choice(["--nzooms", "-z"])]
    else:
        o["zooms"] = ["zooms", rng.choice([[10], [10, 100], [4, 16, 64, 256], [1000]]), rng.choice(["--zooms", "--zooms=", "-zooms="])]
    o["stdin"] = rng.choice([None] * 7 + ["-", "stdin", "/dev/stdin"])
    o["style"] = rng.choice(["direct", "direct", "bigtools_sub", "bigtools_sub_ucsc", "symlink_ucsc", "symlink_ucsc", "symlink_lower"])
    o["opts_first"] = rng.random() < 0.5
    if kind == "bed":
        o["autosql"] = rng.choice([None, None, "--autosql", "-a", "-as="]) if not inp["mixed_columns"] else None
    # backward conversions
    o["back"] = _gen_back(rng, kind, inp, restricted=False)
    o["back_restricted"] = _gen_back(rng, kind, inp, restricted=True) if rng.random() < 0.65 else None
    return o


def _gen_back(rng, kind, inp, restricted):
    b = {}
    b["t"] = rng.choice([1, 2, 4, 16, None])
    b["inmemory"] = rng.random() < 0.3
    b["style"] = rng.choice(["direct", "bigtools_sub", "bigtools_sub_ucsc", "symlink_ucsc"])
    b["opts_first"] = rng.random() < 0.5
    if restricted:
        with_data = [n for n, _, k in inp["per_chrom"] if k > 0]
        chrom = rng.choice(with_data)
        size = inp["sizes"][chrom]
        pts = {0, size}
        for (c, s, e, _) in inp["records"]:
            if c == chrom:
                for p in (s - 1, s, s + 1, e - 1, e, e + 1, (s + e) // 2):
                    if 0 <= p <= size:
                        pts.add(p)
        pts = sorted(pts)
        mode = rng.choice(["chrom", "chrom+start", "chrom+end", "chrom+start+end", "chrom+start+end"])
        start = end = None
        if mode == "chrom+start":
            start = rng.choice([p for p in pts if p < size])
        elif mode == "chrom+end":
            end = rng.choice([p for p in pts if p > 0])
        elif mode == "chrom+start+end":
            start = rng.choice([p for p in pts if p < size])
            end = rng.choice([p for p in pts if p > start])
        b["chrom"], b["start"], b["end"] = chrom, start, end
        b["spelling"] = rng.choice(["native", "native=", "ucsc"])
    return b


# ---------------------------------------------------------- command lines --
def _argv0(cwd, tool, style):
    if style == "direct":
        return [ct.bin_path(tool)]
    if style == "bigtools_sub":
        return [ct.bin_path("bigtools"), tool]
    if style == "bigtools_sub_ucsc":
        return [ct.bin_path("bigtools"), UCSC_NAME[tool]]
    if style == "symlink_ucsc":
        return [ct.symlink(cwd, UCSC_NAME[tool])]
    if style == "symlink_lower":
        return [ct.symlink(cwd, tool)]
    raise ValueError(style)


def _opt(sp, val):
    """'--x' -> ['--x', 'v'];  '--x=' / '-x=' -> ['--x=v']"""
    if sp.endswith("="):
        return [sp + str(val)]
    return [sp, str(val)]


def fwd_argv(cwd, kind, o, in_name, out_name, parallel_override=None, tags=None):
    tool = FWD_TOOL[kind]
    tags = tags if tags is not None else []
    opts = []
    if o["t"] is not None:
        opts += _opt(o["t_spelling"], o["t"])
        tags.append("fwd:-t=%d" % o["t"])
    else:
        tags.append("fwd:-t=default")
    par = parallel_override or o["parallel"]
    if par is not None:
        opts += _opt(o["parallel_spelling"], par)
    tags.append("parallel=%s" % (par or "default"))
    if o["single_pass"]:
        opts.append("--single-pass")
        tags.append("--single-pass")
    else:
        tags.append("two-pass")
    if o["inmemory"]:
        opts.append("--inmemory")
        tags.append("fwd:--inmemory")
    if o["unc"]:
        opts.append(o["unc"])
        tags.append("spelling:" + o["unc"])
    if o["block_size"] is not None:
        opts += _opt(o["block_size_spelling"], o["block_size"])
        tags.append("spelling:" + o["block_size_spelling"])
    if o["items_per_slot"] is not None:
        opts += _opt(o["items_per_slot_spelling"], o["items_per_slot"])
        tags.append("spelling:" + o["items_per_slot_spelling"])
    if kind == "bed" and o.get("autosql"):
        opts += _opt(o["autosql"], "fields.as")
        tags.append("spelling:" + o["autosql"])
    tail = []
    if o["zooms"]:
        what, val, sp = o["zooms"]
        txt = ",".join(map(str, val)) if isinstance(val, list) else str(val)
        tags.append("spelling:" + sp)
        if sp.endswith("="):
            opts += [sp + txt]
        else:
            tail = [sp, txt]  # `--zooms` takes 1.. values: keep it last so it cannot swallow a positional
    src = o["stdin"] or in_name
    tags.append("stdin:" + o["stdin"] if o["stdin"] else "input:file")
    tags.append("fwd:style:" + o["style"])
    pos = [src, "chrom.sizes", out_name]
    argv = _argv0(cwd, tool, o["style"]) + (opts + pos if o["opts_first"] else pos + opts) + tail
    return argv, (in_name if o["stdin"] else None)


def bwd_argv(cwd, kind, b, in_name, out_name, tags=None):
    tool = BWD_TOOL[kind]
    tags = tags if tags is not None else []
    opts = []
    if b["t"] is not None:
        opts += ["-t", str(b["t"])]
        tags.append("bwd:-t=%d" % b["t"])
    else:
        tags.append("bwd:-t=default")
    if b["inmemory"]:
        opts.append("--inmemory")
        tags.append("bwd:--inmemory")
    if b.get("chrom") is not None:
        sp = b["spelling"]
        for key in ("chrom", "start", "end"):
            if b[key] is None:
                continue
            if sp == "native":
                opts += ["--" + key, str(b[key])]
            elif sp == "native=":
                opts += ["--%s=%s" % (key, b[key])]
            else:
                opts += ["-%s=%s" % (key, b[key])]
            tags.append("spelling:" + {"native": "--%s", "native=": "--%s=", "ucsc": "-%s="}[sp] % key)
    tags.append("bwd:style:" + b["style"])
    pos = [in_name, out_name]
    return _argv0(cwd, tool, b["style"]) + (opts + pos if b["opts_first"] else pos + opts)


# ----------------------------------------------------------------- oracle --
def _is_subseq(small, big):
    it = iter(big)
    return all(any(x == y for y in it) for x in small)


def compare_seq(exp, got, third):
    """exp/got: lists of (chrom, start, end, tail). Returns None or (site_suffix, detail)."""
    if exp == got:
        return None
    det = dict(expected_records=len(exp), got_records=len(got))
    if sorted(map(repr, exp)) == sorted(map(repr, got)):
        site = "order"
    elif len(got) < len(exp) and _is_subseq(got, exp):
        gotc = {r[0] for r in got}
        missing = [r for r in exp if r not in got]
        whole = {r[0] for r in exp} - gotc
        site = "chromosome_missing" if whole and all(r[0] in whole for r in missing) else "records_missing"
        det["missing_chromosomes"] = sorted(whole)
    elif len(got) > len(exp) and _is_subseq(exp, got):
        site = "records_extra"
    else:
        i = 0
        while i < min(len(exp), len(got)) and exp[i] == got[i]:
            i += 1
        if i >= min(len(exp), len(got)):
            site = "record_count"
        elif exp[i][0] != got[i][0]:
            site = "chrom"
        elif exp[i][1:3] != got[i][1:3]:
            site = "coords"
        else:
            site = third
        det["first_difference_at_record"] = i
    i = 0
    while i < min(len(exp), len(got)) and exp[i] == got[i]:
        i += 1
    det["expected_from_first_difference"] = [repr(x)[:200] for x in exp[i:i + 3]]
    det["got_from_first_difference"] = [repr(x)[:200] for x in got[i:i + 3]]
    return site, det


def parse_bedgraph_out(data):
    recs = []
    txt = data.decode("utf-8", "surrogateescape")
    if txt and not txt.endswith("\n"):
        return None, "output does not end with a newline"
    for ln in txt.split("\n")[:-1]:
        f = ln.split("\t")
        if len(f) != 4:
            return None, "line with %d fields: %r" % (len(f), ln[:100])
        try:
            recs.append((f[0], int(f[1]), int(f[2]), ct.parse_f32(f[3])))
        except ValueError:
            return None, "unparsable line: %r" % ln[:100]
    return recs, None


def parse_bed_out(data):
    recs = []
    txt = data.decode("utf-8", "surrogateescape")
    if txt and not txt.endswith("\n"):
        return None, "output does not end with a newline"
    for ln in txt.split("\n")[:-1]:
        f = ln.split("\t", 3)
        if len(f) < 3:
            return None, "line with %d fields: %r" % (len(f), ln[:100])
        try:
            recs.append((f[0], int(f[1]), int(f[2]), f[3] if len(f) > 3 else None))
        except ValueError:
            return None, "unparsable line: %r" % ln[:100]
    return recs, None


def expected_records(inp):
    if inp["kind"] == "bedgraph":
        return [(c, s, e, ct.parse_f32(t)) for (c, s, e, t) in inp["records"]]
    # BED: `None` = no extra columns (3-field line)
    return [(c, s, e, (t if t != "" else None)) for (c, s, e, t) in inp["records"]]


def _parallel_why(stderr):
    low = stderr.lower()
    if "not sorted" in low:
        return "not_sorted_error"
    if "valid utf-8" in low:
        return "invalid_utf8_error"
    if "parallel conversion requires" in low:
        return "cancelled_exit_zero"
    return "other_error"


def _feature(inp):
    """Shape of the input that the chromosome indexer is known to mishandle (priority order; detail has all features)."""
    for x in ("last_chrom_single_line", "run_first_line_longer_than_previous_line"):
        if x in inp["feats"]:
            return x
    return "other_shape"


# ------------------------------------------------------------------- case --
def _case(c, seed, tier, index, cwd):
    rng = random.Random("%s:%s" % (seed, index))
    kind = "bedgraph" if index % 2 == 0 else "bed"
    inp = gen_input(rng, kind, tier)
    o = gen_opts(rng, kind, inp)
    in_name = "in.bedGraph" if kind == "bedgraph" else "in.bed"
    big = "out.bw" if kind == "bedgraph" else "out.bb"
    ct.write(cwd, in_name, inp["text"])
    ct.write(cwd, "chrom.sizes", inp["sizes_text"])
    if kind == "bed" and o.get("autosql"):
        ct.write(cwd, "fields.as", _autosql(inp["ncol"]))
    c.opts = {k: v for k, v in o.items() if k not in ("back", "back_restricted")}
    c.opts["back.t"] = o["back"]["t"]
    c.opts["back.style"] = o["back"]["style"]
    c.opts["restricted"] = (o["back_restricted"] or {}).get("spelling")
    c.desc = dict(kind=kind, opts=o, input=dict(chroms=inp["per_chrom"], features=inp["feats"], extra_columns=inp["ncol"], text_head=inp["text"][:300]))
    c.hash = ct.sha(inp["text"], inp["sizes_text"], o)
    c.nontrivial = len(inp["names"]) >= 2 and len(inp["records"]) >= 3
    c.tag("kind:" + kind)
    for f in inp["feats"]:
        c.tag("input:" + f)
    c.count("conversions")
    fwd_tool, bwd_tool = FWD_TOOL[kind], BWD_TOOL[kind]

    def detail(**kw):
        d = dict(commands=list(c.log), cwd_files={in_name: ct.trunc(inp["text"]), "chrom.sizes": ct.trunc(inp["sizes_text"], 600)},
                 note="run the commands in a directory holding these files; ./Name entries are symlinks to %s" % ct.bin_path("bigtools"))
        if kind == "bed" and o.get("autosql"):
            d["cwd_files"]["fields.as"] = _autosql(inp["ncol"])
        d.update(kw)
        return d

    # ---- forward
    tags = []
    argv, stdin_path = fwd_argv(cwd, kind, o, in_name, big, tags=tags)
    c.tag(*tags)
    r = ct.run(argv, cwd, stdin_path=stdin_path)
    if not c.ran(r, fwd_tool):
        return
    par_eff = (o["parallel"] == "yes") and (o["t"] != 1) and not o["stdin"]
    if par_eff:
        c.tag("parallel_path_taken")
        c.count("parallel_yes_effective")
    have = ct.exists(cwd, big) and os.path.getsize(os.path.join(cwd, big)) > 0
    fwd_ok = (r.rc == 0) and have
    if not fwd_ok:
        if r.panicked():
            c.viol("panic", fwd_tool, detail(stderr=r.err[:800], rc=r.rc))
        elif par_eff:
            why = _parallel_why(r.err)
            site = fwd_tool + ":" + why + ((":" + _feature(inp)) if why in ("not_sorted_error", "cancelled_exit_zero") else "")
            c.viol("parallel_refuses_sorted_input", site, detail(stderr=r.err[:800], rc=r.rc, input_features=inp["feats"],
                   what="the input is sorted (bytewise chromosome order, starts ascending) and converts with --parallel no"))
        elif r.rc != 0:
            c.viol("nonzero_exit", fwd_tool, detail(stderr=r.err[:800], rc=r.rc))
        else:
            c.viol("exit_zero_but_no_output", fwd_tool, detail(stderr=r.err[:800], rc=r.rc))
        if not par_eff:
            return
        # judge the rest of the pipeline through the serial reader
        big = "out_serial.bw" if kind == "bedgraph" else "out_serial.bb"
        argv, stdin_path = fwd_argv(cwd, kind, o, in_name, big, parallel_override="no")
        c.tag("fallback:--parallel_no")
        r = ct.run(argv, cwd, stdin_path=stdin_path)
        if not c.ran(r, fwd_tool):
            return
        have = ct.exists(cwd, big) and os.path.getsize(os.path.join(cwd, big)) > 0
        if r.rc != 0 or not have:
            cls = "panic" if r.panicked() else ("nonzero_exit" if r.rc != 0 else "exit_zero_but_no_output")
            c.viol(cls, fwd_tool + ":serial_fallback", detail(stderr=r.err[:800], rc=r.rc))
            return
    elif par_eff:
        c.count("parallel_yes_converted")

    exp = expected_records(inp)
    parse = parse_bedgraph_out if kind == "bedgraph" else parse_bed_out
    third = "value" if kind == "bedgraph" else "extra_columns"
    rt = kind + "_roundtrip"

    # ---- backward, whole file
    tags = []
    if index % 3 != 0:
        # the output path already holds an older, longer result: the tool must replace it, not write over its head
        ct.write(cwd, "back.txt", STALE)
        c.tag("output_file_preexists")
    argv = bwd_argv(cwd, kind, o["back"], big, "back.txt", tags=tags)
    c.tag(*tags)
    r = ct.run(argv, cwd)
    if not c.ran(r, bwd_tool):
        return
    full_ok = False
    if r.panicked():
        c.viol("panic", bwd_tool, detail(stderr=r.err[:800], rc=r.rc))
    elif r.rc != 0:
        c.viol("nonzero_exit", bwd_tool, detail(stderr=r.err[:800], rc=r.rc))
    elif not ct.exists(cwd, "back.txt"):
        c.viol("exit_zero_but_no_output", bwd_tool, detail(stderr=r.err[:800], rc=r.rc))
    else:
        data = ct.read(cwd, "back.txt")
        got, bad = parse(data)
        if got is None:
            c.viol("content_mismatch", rt + ":malformed_output", detail(problem=bad, output=ct.trunc(data, 800)))
        else:
            c.count("records_compared", len(exp))
            diff = compare_seq(exp, got, third)
            if diff:
                c.viol("content_mismatch", rt + ":" + diff[0], detail(output=ct.trunc(data, 800), **diff[1]))
            else:
                full_ok = True
            if kind == "bed" and full_ok:
                # byte-level: the text itself must come back (input has no trailing blanks and canonical integers)
                want = "\n".join(inp["lines"]) + "\n"
                if data.decode("utf-8", "surrogateescape") != want:
                    c.viol("content_mismatch", rt + ":bytes", detail(output=ct.trunc(data, 800)))

    # ---- backward, restricted
    b = o["back_restricted"]
    if not b:
        return
    c.count("restricted_queries")
    tags = []
    if index % 3 != 1:
        ct.write(cwd, "restricted.txt", STALE)
    argv = bwd_argv(cwd, kind, b, big, "restricted.txt", tags=tags)
    c.tag(*tags)
    c.tag("restricted:" + "+".join(k for k in ("chrom", "start", "end") if b[k] is not None))
    r = ct.run(argv, cwd)
    if not c.ran(r, bwd_tool):
        return
    if r.panicked():
        c.viol("panic", bwd_tool + ":restricted", detail(stderr=r.err[:800], rc=r.rc))
        return
    if r.rc != 0:
        c.viol("nonzero_exit", bwd_tool + ":restricted", detail(stderr=r.err[:800], rc=r.rc))
        return
    if not ct.exists(cwd, "restricted.txt"):
        c.viol("exit_zero_but_no_output", bwd_tool + ":restricted", detail(stderr=r.err[:800], rc=r.rc))
        return
    data = ct.read(cwd, "restricted.txt")
    got, bad = parse(data)
    if got is None:
        c.viol("content_mismatch", kind + "_restricted:malformed_output", detail(problem=bad, output=ct.trunc(data, 800)))
        return
    chrom = b["chrom"]
    qs = b["start"] if b["start"] is not None else 0
    qe = b["end"] if b["end"] is not None else inp["sizes"][chrom]
    on_chrom = [x for x in exp if x[0] == chrom]
    if kind == "bedgraph":
        want = [(ch, max(s, qs), min(e, qe), v) for (ch, s, e, v) in on_chrom if max(s, qs) < min(e, qe)]
        diff = compare_seq(want, got, "value")
        if diff:
            c.viol("restricted_output_wrong", bwd_tool + ":" + diff[0], detail(query=[chrom, qs, qe], output=ct.trunc(data, 800), **diff[1]))
    else:
        must = [x for x in on_chrom if max(x[1], qs) < min(x[2], qe)]
        mustnot = [x for x in on_chrom if x[2] < qs or x[1] > qe]
        c.count("restricted_must_entries", len(must))
        c.count("restricted_may_entries", len(on_chrom) - len(must) - len(mustnot))
        problem = None
        if any(x[0] != chrom for x in got):
            problem = ("other_chromosome", [repr(x)[:200] for x in got if x[0] != chrom][:3])
        elif not _is_subseq(got, on_chrom):
            problem = ("not_a_subsequence_of_input", [repr(x)[:200] for x in got[:5]])
        elif any(x in mustnot for x in got):
            problem = ("entry_outside_range", [repr(x)[:200] for x in got if x in mustnot][:3])
        elif not _is_subseq(must, got):
            problem = ("overlapping_entry_missing", [repr(x)[:200] for x in must if x not in got][:3])
        if problem:
            c.viol("restricted_output_wrong", bwd_tool + ":" + problem[0], detail(query=[chrom, qs, qe], witnesses=problem[1], output=ct.trunc(data, 800)))


# ------------------------------------------------------------------- legs --
def _mk_leg(name, parity, n, seed, tier, scratch):
    def run(leg_dict):
        leg = pyleg.PyLeg(name, cmd=KIND, seed=seed, tier=tier)
        ct.run_cases(leg, _case, [i for i in range(n) if i % 2 == parity], seed, tier, os.path.join(scratch, name), KIND)
        return leg.done(extra=dict(notes=leg.res.notes))
    return {"name": name, "run": run}


def legs(tier, seed, scratch):
    n = N_CASES.get(tier, N_CASES["quick"])
    return [_mk_leg("c16-bedgraph", 0, n, seed, tier, scratch), _mk_leg("c16-bed", 1, n, seed, tier, scratch)]


def replay(j, scratch):
    return ct.replay_case(_case, j, os.path.join(scratch, "replay"))


props.REPLAYERS[KIND] = replay
