//! In-memory sinks handed to the public writer constructors.
use std::io::{self, Seek, SeekFrom, Write};
use std::sync::{Arc, Mutex};

/// Plain shared in-memory file.
#[derive(Clone, Default)]
pub struct MemSink(pub Arc<Mutex<MemFile>>);

#[derive(Default)]
pub struct MemFile {
    pub data: Vec<u8>,
    pub pos: u64,
}

impl MemFile {
    fn write_at_pos(&mut self, buf: &[u8]) {
        let pos = self.pos as usize;
        if self.data.len() < pos {
            self.data.resize(pos, 0);
        }
        let overlap = (self.data.len() - pos).min(buf.len());
        self.data[pos..pos + overlap].copy_from_slice(&buf[..overlap]);
        self.data.extend_from_slice(&buf[overlap..]);
        self.pos += buf.len() as u64;
    }
    fn seek_to(&mut self, from: SeekFrom) -> io::Result<u64> {
        let new = match from {
            SeekFrom::Start(p) => p as i128,
            SeekFrom::Current(d) => self.pos as i128 + d as i128,
            SeekFrom::End(d) => self.data.len() as i128 + d as i128,
        };
        if new < 0 {
            return Err(io::Error::new(io::ErrorKind::InvalidInput, "negative seek"));
        }
        self.pos = new as u64;
        Ok(self.pos)
    }
}

impl MemSink {
    pub fn new() -> Self {
        Self::default()
    }
    pub fn bytes(&self) -> Vec<u8> {
        self.0.lock().unwrap().data.clone()
    }
}

impl Write for MemSink {
    fn write(&mut self, buf: &[u8]) -> io::Result<usize> {
        self.0.lock().unwrap().write_at_pos(buf);
        Ok(buf.len())
    }
    fn flush(&mut self) -> io::Result<()> {
        Ok(())
    }
}
impl Seek for MemSink {
    fn seek(&mut self, from: SeekFrom) -> io::Result<u64> {
        self.0.lock().unwrap().seek_to(from)
    }
}

#[derive(Clone, Debug, PartialEq, Eq)]
pub enum Op {
    Write { pos: u64, data: Vec<u8> },
    Seek { from: (u8, i64), result: u64 },
    Flush,
}

impl Op {
    pub fn kind(&self) -> &'static str {
        match self {
            Op::Write { .. } => "write",
            Op::Seek { .. } => "seek",
            Op::Flush => "flush",
        }
    }
}

#[derive(Default)]
pub struct RecState {
    pub file: MemFile,
    pub ops: Vec<Op>,
    /// fail the operation with this index (0-based) ...
    pub fail_at: Option<usize>,
    /// ... and every later one too
    pub fail_from: bool,
    pub failures_delivered: usize,
    pub failed_kinds: Vec<&'static str>,
    /// how many operations arrived after the first failure was delivered
    pub ops_after_failure: usize,
}

/// Sink that records every operation that reaches it and can fail the k-th.
#[derive(Clone, Default)]
pub struct RecSink(pub Arc<Mutex<RecState>>);

impl RecSink {
    pub fn new(fail_at: Option<usize>, fail_from: bool) -> Self {
        let s = RecSink::default();
        {
            let mut g = s.0.lock().unwrap();
            g.fail_at = fail_at;
            g.fail_from = fail_from;
        }
        s
    }
    fn should_fail(g: &mut RecState, kind: &'static str) -> bool {
        let idx = g.ops.len();
        let fail = match g.fail_at {
            Some(k) => idx == k || (g.fail_from && idx > k),
            None => false,
        };
        if g.failures_delivered > 0 {
            g.ops_after_failure += 1;
        }
        if fail {
            g.failures_delivered += 1;
            g.failed_kinds.push(kind);
        }
        fail
    }
}

impl Write for RecSink {
    fn write(&mut self, buf: &[u8]) -> io::Result<usize> {
        let mut g = self.0.lock().unwrap();
        let fail = Self::should_fail(&mut g, "write");
        let pos = g.file.pos;
        if fail {
            // the failed operation is still recorded (as a zero-effect op) so indices stay aligned
            g.ops.push(Op::Write { pos, data: vec![] });
            return Err(io::Error::new(io::ErrorKind::Other, "injected write failure"));
        }
        g.ops.push(Op::Write { pos, data: buf.to_vec() });
        g.file.write_at_pos(buf);
        Ok(buf.len())
    }
    fn flush(&mut self) -> io::Result<()> {
        let mut g = self.0.lock().unwrap();
        let fail = Self::should_fail(&mut g, "flush");
        g.ops.push(Op::Flush);
        if fail {
            return Err(io::Error::new(io::ErrorKind::Other, "injected flush failure"));
        }
        Ok(())
    }
}
impl Seek for RecSink {
    fn seek(&mut self, from: SeekFrom) -> io::Result<u64> {
        let mut g = self.0.lock().unwrap();
        let fail = Self::should_fail(&mut g, "seek");
        let enc = match from {
            SeekFrom::Start(p) => (0u8, p as i64),
            SeekFrom::Current(d) => (1u8, d),
            SeekFrom::End(d) => (2u8, d),
        };
        if fail {
            let cur = g.file.pos;
            g.ops.push(Op::Seek { from: enc, result: cur });
            return Err(io::Error::new(io::ErrorKind::Other, "injected seek failure"));
        }
        let r = g.file.seek_to(from)?;
        g.ops.push(Op::Seek { from: enc, result: r });
        Ok(r)
    }
}

/// Rebuild the image produced by the first `k` recorded operations.
pub fn image_after(ops: &[Op], k: usize) -> Vec<u8> {
    let mut f = MemFile::default();
    for op in &ops[..k.min(ops.len())] {
        match op {
            Op::Write { pos, data } => {
                f.pos = *pos;
                f.write_at_pos(data);
            }
            Op::Seek { .. } | Op::Flush => {}
        }
    }
    f.data
}

/// Read + Seek over bytes that counts underlying reads (for cache observation)
pub struct CountingCursor {
    pub data: Arc<Vec<u8>>,
    pub pos: u64,
    pub reads: Arc<std::sync::atomic::AtomicU64>,
    pub bytes_read: Arc<std::sync::atomic::AtomicU64>,
}
impl CountingCursor {
    pub fn new(data: Arc<Vec<u8>>) -> Self {
        CountingCursor { data, pos: 0, reads: Default::default(), bytes_read: Default::default() }
    }
}
impl io::Read for CountingCursor {
    fn read(&mut self, buf: &mut [u8]) -> io::Result<usize> {
        use std::sync::atomic::Ordering::Relaxed;
        let start = (self.pos as usize).min(self.data.len());
        let n = (self.data.len() - start).min(buf.len());
        buf[..n].copy_from_slice(&self.data[start..start + n]);
        self.pos += n as u64;
        self.reads.fetch_add(1, Relaxed);
        self.bytes_read.fetch_add(n as u64, Relaxed);
        Ok(n)
    }
}
impl Seek for CountingCursor {
    fn seek(&mut self, from: SeekFrom) -> io::Result<u64> {
        let new = match from {
            SeekFrom::Start(p) => p as i128,
            SeekFrom::Current(d) => self.pos as i128 + d as i128,
            SeekFrom::End(d) => self.data.len() as i128 + d as i128,
        };
        if new < 0 {
            return Err(io::Error::new(io::ErrorKind::InvalidInput, "negative seek"));
        }
        self.pos = new as u64;
        Ok(self.pos)
    }
}
impl bigtools::utils::reopen::Reopen for CountingCursor {
    fn reopen(&self) -> io::Result<Self> {
        Ok(CountingCursor { data: self.data.clone(), pos: 0, reads: self.reads.clone(), bytes_read: self.bytes_read.clone() })
    }
}
