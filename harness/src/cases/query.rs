//! C03 / C04: range-query histories against one live reader, plain / cached / reopened.
use crate::cases::rt::{gen_bb_case, gen_bw_case, BbGenCfg, BwGenCfg};
use crate::gen::*;
use crate::model;
use crate::proto::{Ctx, Outcome};
use crate::sink::{CountingCursor, MemSink};
use crate::util::{Fnv, Rng, J};
use crate::wr::{self, CallResult};
use bigtools::utils::reopen::{Reopen, ReopenableFile};
use bigtools::{BBIFileRead, BedEntry, BigBedRead, BigWigRead, Value};
use std::sync::atomic::Ordering::Relaxed;
use std::sync::Arc;

fn boundary_set_bw(vals: &[Value], size: u32, ips: usize) -> Vec<u32> {
    let mut b = vec![0, size];
    for (i, v) in vals.iter().enumerate() {
        for p in [v.start, v.end, v.start.saturating_sub(1), v.end.saturating_add(1), v.start.saturating_add(1), v.end.saturating_sub(1)] {
            b.push(p.min(size));
        }
        if i % ips == 0 || (i + 1) % ips == 0 {
            b.push(v.start.min(size));
            b.push(v.end.min(size));
        }
    }
    b.sort();
    b.dedup();
    b
}

fn vjson(v: &Value) -> J {
    J::A(vec![v.start.into(), v.end.into(), J::U(v.value.to_bits() as u64)])
}

/// Compare one get_interval answer with the model. Returns a signature if it disagrees.
fn judge_bw(stored: &[Value], s: u32, e: u32, got: &[Value]) -> Option<(String, String, J)> {
    let stored_pos: Vec<Value> = stored.iter().filter(|v| v.end > v.start).cloned().collect();
    let want = model::bw_query(&stored_pos, s, e);
    let got_pos: Vec<&Value> = got.iter().filter(|v| v.end > v.start).collect();
    let got_zero: Vec<&Value> = got.iter().filter(|v| v.end <= v.start).collect();
    let detail = |why: &str| {
        J::obj()
            .set("why", why.into())
            .set("q", J::A(vec![s.into(), e.into()]))
            .set("got", J::A(got.iter().take(8).map(vjson).collect()))
            .set("want", J::A(want.iter().take(8).map(vjson).collect()))
            .set("n_got", got.len().into())
            .set("n_want", want.len().into())
    };
    for w in got.windows(2) {
        if w[0].start > w[1].start {
            return Some(("not_ascending".into(), "".into(), detail("order")));
        }
    }
    let same = got_pos.len() == want.len()
        && got_pos.iter().zip(want.iter()).all(|(a, b)| a.start == b.start && a.end == b.end && a.value.to_bits() == b.value.to_bits());
    if !same {
        // classify
        let missing = want.iter().any(|w| !got_pos.iter().any(|g| g.start == w.start && g.end == w.end && g.value.to_bits() == w.value.to_bits()));
        let unclipped = got_pos.iter().any(|g| g.start < s || g.end > e);
        let class = if unclipped {
            "value_not_clipped"
        } else if missing {
            "overlapping_value_missing"
        } else {
            "value_outside_range_or_altered"
        };
        let site = if s == e { "empty_range" } else { "" };
        return Some((class.into(), site.into(), detail(class)));
    }
    for z in got_zero {
        let is_stored = stored.iter().any(|v| v.start == v.end && v.start == z.start && v.value.to_bits() == z.value.to_bits());
        if !(is_stored && z.start >= s && z.start <= e && z.start == z.end) {
            let site = if s == e && stored_pos.iter().any(|v| v.start < s && s < v.end) {
                "empty_range_strictly_inside_a_value"
            } else if s == e {
                "empty_range"
            } else {
                "nonempty_range"
            };
            return Some(("zero_length_item_that_is_not_stored".into(), site.into(), detail("zero-length")));
        }
    }
    None
}

fn collect_bw<R: BBIFileRead>(rd: &mut BigWigRead<R>, chrom: &str, s: u32, e: u32) -> Result<Vec<Value>, String> {
    rd.get_interval(chrom, s, e).map_err(|e| e.to_string())?.collect::<Result<Vec<_>, _>>().map_err(|e| e.to_string())
}

pub fn c03(ctx: &Ctx, begin: &mut dyn FnMut(J)) -> Outcome {
    let mut r = Rng::derive(ctx.seed, 0xC03, ctx.case);
    if ctx.case == 0 {
        return c03_cache_reset(ctx, begin);
    }
    let mut case = gen_bw_case(
        &mut r,
        &BwGenCfg { allow_zero_len: true, huge_ok: true, small_slots: true, allow_unsorted_chroms: true, max_chroms: 4, force_exact: false },
    );
    case.opts.source = Source::Serial; // the source is C01/C11's concern; keep this check independent of C18
    begin(J::obj().set("opts", case.opts.to_json()).set("input", bw_input_json(&case.input)));
    let mut out = Outcome::new();
    let sink = MemSink::new();
    let res = wr::write_bw(sink.clone(), &case.input, &case.opts, Some(&ctx.scratch), &[]);
    if !matches!(res, CallResult::Ok) {
        out.inconclusive = Some(format!("blocked_by:C01 write failed: {}", res.short()));
        return out;
    }
    let bytes = Arc::new(sink.bytes());
    let nq: usize = if ctx.tier == crate::proto::Tier::Quick { 120 } else { 300 };
    let ips = case.opts.items_per_slot as usize;
    let mut qhash = Fnv::new();
    qhash.str(&case.hash);
    let run = wr::guard(|| -> Result<(), String> {
        let plain_cur = CountingCursor::new(bytes.clone());
        let plain_reads = plain_cur.reads.clone();
        let mut plain = BigWigRead::open(plain_cur).map_err(|e| format!("open: {}", e))?;
        let cached_cur = CountingCursor::new(bytes.clone());
        let cached_reads = cached_cur.reads.clone();
        let mut cached = BigWigRead::open(cached_cur).map_err(|e| format!("open: {}", e))?.cached();
        let mut reopened = plain.reopen().map_err(|e| format!("reopen: {}", e))?;
        // optional: a real file through ReopenableFile
        let mut on_disk = if r.chance(1, 8) {
            let p = wr::scratch_file(&ctx.scratch, "bw");
            std::fs::write(&p, &bytes[..]).map_err(|e| format!("HARNESS {}", e))?;
            let f = BigWigRead::open(ReopenableFile { path: p.clone(), file: std::fs::File::open(&p).map_err(|e| format!("HARNESS {}", e))? })
                .map_err(|e| format!("open file: {}", e))?;
            Some((f, p))
        } else {
            None
        };
        let zoom_levels: Vec<u32> = plain.info().zoom_headers.iter().map(|z| z.reduction_level).collect();
        let mut history: Vec<(usize, u32, u32)> = vec![];
        let bsets: Vec<Vec<u32>> = case.input.iter().map(|(c, vs)| boundary_set_bw(vs, c.size, ips)).collect();
        for qi in 0..nq as usize {
            let (ci, s, e) = if !history.is_empty() && r.chance(1, 5) {
                *r.pick(&history)
            } else {
                let ci = r.below(case.input.len() as u64) as usize;
                let size = case.input[ci].0.size;
                let (a, b) = if r.chance(4, 5) {
                    (*r.pick(&bsets[ci]), *r.pick(&bsets[ci]))
                } else {
                    (r.below(size as u64 + 1) as u32, r.below(size as u64 + 1) as u32)
                };
                let (s, e) = (a.min(b), a.max(b));
                if r.chance(1, 12) {
                    (ci, s, s)
                } else {
                    (ci, s, e)
                }
            };
            history.push((ci, s, e));
            qhash.u64(((ci as u64) << 32) | s as u64);
            qhash.u64(e as u64);
            let (c, vs) = &case.input[ci];
            // state disturber
            if !zoom_levels.is_empty() && r.chance(1, 6) {
                let lv = *r.pick(&zoom_levels);
                for rd in [&mut plain, &mut reopened] {
                    let _ = rd.get_zoom_interval(&c.name, s, e.max(s), lv).map(|it| it.count());
                }
                let _ = cached.get_zoom_interval(&c.name, s, e.max(s), lv).map(|it| it.count());
            }
            let before_cached = cached_reads.load(Relaxed);
            let g_plain = collect_bw(&mut plain, &c.name, s, e)?;
            let g_cached = collect_bw(&mut cached, &c.name, s, e)?;
            let g_reopen = collect_bw(&mut reopened, &c.name, s, e)?;
            out.count("queries", 3);
            if s == e {
                out.count("empty_range_queries", 1);
            }
            if cached_reads.load(Relaxed) == before_cached {
                out.count("cached_queries_served_without_underlying_reads", 1);
            }
            if let Some((sig, site, d)) = judge_bw(vs, s, e, &g_plain) {
                out.viol(&sig, site, d.set("reader", "plain".into()).set("query_index", qi.into()).set("chrom", J::s(c.name.clone())));
            }
            let eq = |a: &[Value], b: &[Value]| a.len() == b.len() && a.iter().zip(b).all(|(x, y)| x.start == y.start && x.end == y.end && x.value.to_bits() == y.value.to_bits());
            if !eq(&g_plain, &g_cached) {
                out.viol("cached_reader_differs", "", J::obj().set("q", J::A(vec![s.into(), e.into()])).set("query_index", qi.into()));
            }
            if !eq(&g_plain, &g_reopen) {
                out.viol("reopened_reader_differs", "", J::obj().set("q", J::A(vec![s.into(), e.into()])).set("query_index", qi.into()));
            }
            if let Some((f, _)) = on_disk.as_mut() {
                let g = collect_bw(f, &c.name, s, e)?;
                out.count("queries", 1);
                if !eq(&g_plain, &g) {
                    out.viol("file_reader_differs", "", J::obj().set("q", J::A(vec![s.into(), e.into()])));
                }
            }
            // values()
            if e - s <= 50_000 && r.chance(1, 2) {
                let want = model::bw_values_array(vs, s, e);
                for (name, got) in [("plain", plain.values(&c.name, s, e)), ("cached", cached.values(&c.name, s, e))] {
                    let got = got.map_err(|e| format!("values: {}", e))?;
                    out.count("values_calls", 1);
                    let same = got.len() == want.len() && got.iter().zip(&want).all(|(a, b)| a.to_bits() == b.to_bits() || (a.is_nan() && b.is_nan()));
                    if !same {
                        let idx = got.iter().zip(&want).position(|(a, b)| !(a.to_bits() == b.to_bits() || (a.is_nan() && b.is_nan())));
                        out.viol(
                            "values_array_wrong",
                            name,
                            J::obj().set("q", J::A(vec![s.into(), e.into()])).set("first_bad_offset", idx.map(|i| J::U(i as u64)).unwrap_or(J::Null)).set("len_got", got.len().into()).set("len_want", want.len().into()),
                        );
                    }
                }
            }
            // move API now and then
            if r.chance(1, 10) {
                let it = plain.get_interval_move(&c.name, s, e).map_err(|e| e.to_string())?;
                let mut it = it;
                let mut g = vec![];
                for v in &mut it {
                    g.push(v.map_err(|e| e.to_string())?);
                }
                plain = it.into();
                if !eq(&g, &g_cached) {
                    out.viol("move_api_differs", "", J::obj().set("q", J::A(vec![s.into(), e.into()])));
                }
            }
        }
        let _ = plain_reads;
        if let Some((_, p)) = on_disk {
            let _ = std::fs::remove_file(p);
        }
        Ok(())
    });
    match run {
        Ok(Ok(())) => {}
        Ok(Err(e)) if e.starts_with("HARNESS") => out.inconclusive = Some(e),
        Ok(Err(e)) => out.viol("read_failed", wr::truncate(&e, 60), J::s(e)),
        Err(p) => out.viol("read_panicked", wr::panic_site(&p), J::A(p.into_iter().map(J::S).collect())),
    }
    out.hash = qhash.hex();
    out.nontrivial = case.input.iter().any(|(_, v)| v.len() > ips);
    for t in &case.tags {
        out.tag(t.clone());
    }
    out
}

/// The 5000-entry block cache reset: uncompressed, items_per_slot = 1, 5300 values.
fn c03_cache_reset(ctx: &Ctx, begin: &mut dyn FnMut(J)) -> Outcome {
    let n = 5300u32;
    let vals: Vec<Value> = (0..n).map(|i| Value { start: i * 3, end: i * 3 + 2, value: i as f32 }).collect();
    let input: BwInput = vec![(Chrom { name: "chr1".into(), size: n * 3 }, vals.clone())];
    let mut opts = WOpts::default_small();
    opts.compress = false;
    opts.items_per_slot = 1;
    opts.block_size = 16;
    opts.zoom = Zoom::Auto { initial: 10, max: 0 };
    begin(J::obj().set("opts", opts.to_json()).set("input", J::s("5300 values [3i,3i+2)=i; each block touched once, then the first 400 again (cache clears at 5000 entries)")));
    let mut out = Outcome::new();
    out.hash = "cache_reset".into();
    out.nontrivial = true;
    out.tag("cache_reset_scenario");
    let sink = MemSink::new();
    let res = wr::write_bw(sink.clone(), &input, &opts, Some(&ctx.scratch), &[]);
    if !matches!(res, CallResult::Ok) {
        out.inconclusive = Some(format!("blocked_by:C01 write failed: {}", res.short()));
        return out;
    }
    let bytes = Arc::new(sink.bytes());
    let run = wr::guard(|| -> Result<(), String> {
        let cur = CountingCursor::new(bytes.clone());
        let reads = cur.reads.clone();
        let mut cached = BigWigRead::open(cur).map_err(|e| e.to_string())?.cached();
        let mut hits = 0u64;
        let mut misses = 0u64;
        let order: Vec<u32> = (0..n).chain(0..400).chain((0..n).rev().step_by(7)).collect();
        for i in order {
            let before = reads.load(Relaxed);
            let (s, e) = (i * 3, i * 3 + 2);
            let got = collect_bw(&mut cached, "chr1", s, e)?;
            if reads.load(Relaxed) == before {
                hits += 1;
            } else {
                misses += 1;
            }
            if let Some((sig, site, d)) = judge_bw(&vals, s, e, &got) {
                out.viol(&sig, site, d.set("reader", "cached_reset_scenario".into()));
            }
        }
        out.count("cache_reset_hits", hits);
        out.count("cache_reset_misses", misses);
        out.count("queries", (n + 400) as u64);
        if misses < n as u64 {
            out.note = Some(J::s("fewer misses than blocks: cache layout differs from the assumed one"));
        }
        Ok(())
    });
    match run {
        Ok(Ok(())) => {}
        Ok(Err(e)) => out.viol("read_failed", wr::truncate(&e, 60), J::s(e)),
        Err(p) => out.viol("read_panicked", wr::panic_site(&p), J::A(p.into_iter().map(J::S).collect())),
    }
    out
}

fn ejson(v: &BedEntry) -> J {
    J::A(vec![v.start.into(), v.end.into(), J::s(wr::truncate(&v.rest, 30))])
}

/// The span ends the *writer* would record under "end = last child's end" vs the true maximum.
/// Used only to name the site of a missed entry.
fn miss_site(entries: &[BedEntry], idx: usize, ips: usize, bs: usize) -> &'static str {
    let blocks: Vec<&[BedEntry]> = entries.chunks(ips).collect();
    let bi = idx / ips;
    let last_end = blocks[bi].last().unwrap().end;
    if entries[idx].end > last_end {
        return "entry_end_beyond_last_entry_of_its_block";
    }
    // non-leaf levels: a node's recorded end is the recorded end of its last child
    let mut level_ends: Vec<u32> = blocks.iter().map(|b| b.iter().map(|e| e.end).max().unwrap()).collect();
    let mut pos = bi;
    let mut first = true;
    while level_ends.len() > 1 {
        let group = pos / bs;
        let lo = group * bs;
        let hi = (lo + bs).min(level_ends.len());
        let recorded = level_ends[hi - 1];
        if entries[idx].end > recorded {
            return if first { "entry_end_beyond_last_block_of_its_leaf_node" } else { "entry_end_beyond_last_child_of_a_nonleaf_node" };
        }
        level_ends = level_ends.chunks(bs).map(|c| *c.iter().max().unwrap()).collect();
        pos = group;
        first = false;
    }
    "unexplained"
}

fn judge_bb(stored: &[BedEntry], s: u32, e: u32, got: &[BedEntry], ips: usize, bs: usize) -> Vec<(String, String, J)> {
    let mut v = vec![];
    let detail = |why: &str, extra: J| {
        J::obj().set("why", why.into()).set("q", J::A(vec![s.into(), e.into()])).set("n_got", got.len().into()).set("item", extra)
    };
    // subsequence matching (greedy, earliest)
    let mut matched = vec![false; stored.len()];
    let mut pos = 0usize;
    let mut order_ok = true;
    for g in got {
        if g.end < s || g.start > e {
            v.push(("returned_entry_outside_range".to_string(), "".to_string(), detail("disjoint", ejson(g))));
            continue;
        }
        match stored[pos..].iter().position(|x| x == g) {
            Some(off) => {
                matched[pos + off] = true;
                pos = pos + off + 1;
            }
            None => {
                if stored.iter().any(|x| x == g) {
                    order_ok = false;
                } else {
                    v.push(("returned_entry_not_stored".to_string(), "".to_string(), detail("unknown entry", ejson(g))));
                }
            }
        }
    }
    if !order_ok {
        v.push(("entries_out_of_stored_order_or_duplicated".to_string(), "".to_string(), detail("order", J::Null)));
    }
    for (i, x) in stored.iter().enumerate() {
        if model::overlaps(x.start, x.end, s, e) && !matched[i] && order_ok {
            let site = miss_site(stored, i, ips, bs);
            v.push(("overlapping_entry_missing".to_string(), site.to_string(), detail("missing", ejson(x)).set("index", i.into())));
            break;
        }
    }
    v
}

fn collect_bb<R: BBIFileRead>(rd: &mut BigBedRead<R>, chrom: &str, s: u32, e: u32) -> Result<Vec<BedEntry>, String> {
    rd.get_interval(chrom, s, e).map_err(|e| e.to_string())?.collect::<Result<Vec<_>, _>>().map_err(|e| e.to_string())
}

pub fn c04(ctx: &Ctx, begin: &mut dyn FnMut(J)) -> Outcome {
    let mut r = Rng::derive(ctx.seed, 0xC04, ctx.case);
    let mut case = gen_bb_case(&mut r, &BbGenCfg { allow_zero_len: true, no_zero_zero: true, small_slots: true, max_chroms: 4, ncols: None });
    case.opts.source = Source::Serial;
    begin(J::obj().set("opts", case.opts.to_json()).set("input", bb_input_json(&case.input)));
    let mut out = Outcome::new();
    let sink = MemSink::new();
    let res = wr::write_bb(sink.clone(), &case.input, &case.opts, None, Some(&ctx.scratch), &[]);
    if !matches!(res, CallResult::Ok) {
        out.inconclusive = Some(format!("blocked_by:C02 write failed: {}", res.short()));
        return out;
    }
    let bytes = Arc::new(sink.bytes());
    let nq: usize = if ctx.tier == crate::proto::Tier::Quick { 120 } else { 300 };
    let ips = case.opts.items_per_slot as usize;
    let bs = case.opts.block_size as usize;
    let mut qhash = Fnv::new();
    qhash.str(&case.hash);
    let run = wr::guard(|| -> Result<(), String> {
        let mut plain = BigBedRead::open(CountingCursor::new(bytes.clone())).map_err(|e| format!("open: {}", e))?;
        let cc = CountingCursor::new(bytes.clone());
        let cached_reads = cc.reads.clone();
        let mut cached = BigBedRead::open(cc).map_err(|e| format!("open: {}", e))?.cached();
        let mut reopened = plain.reopen().map_err(|e| format!("reopen: {}", e))?;
        let mut history: Vec<(usize, u32, u32)> = vec![];
        let bsets: Vec<Vec<u32>> = case
            .input
            .iter()
            .map(|(c, vs)| {
                let hi = vs.iter().map(|v| v.end).max().unwrap_or(0).max(c.size);
                let mut b = vec![0, c.size, hi];
                for v in vs {
                    for p in [v.start, v.end, v.start.saturating_sub(1), v.end.saturating_add(1), v.start + 1, v.end.saturating_sub(1), (v.start / 2 + v.end / 2)] {
                        b.push(p.min(hi));
                    }
                }
                b.sort();
                b.dedup();
                b
            })
            .collect();
        for qi in 0..nq as usize {
            let (ci, s, e) = if !history.is_empty() && r.chance(1, 5) {
                *r.pick(&history)
            } else {
                let ci = r.below(case.input.len() as u64) as usize;
                let a = *r.pick(&bsets[ci]);
                let b = *r.pick(&bsets[ci]);
                let (s, mut e) = (a.min(b), a.max(b));
                if s == e {
                    e = s + 1;
                }
                (ci, s, e)
            };
            let (c, vs) = &case.input[ci];
            // the property quantifies over 0 <= s < e <= chromosome length; entries that run past the
            // chromosome end are still queried up to their end (a superset of the quantifier)
            history.push((ci, s, e));
            qhash.u64(((ci as u64) << 32) | s as u64);
            qhash.u64(e as u64);
            let before = cached_reads.load(Relaxed);
            let g_plain = collect_bb(&mut plain, &c.name, s, e)?;
            let g_cached = collect_bb(&mut cached, &c.name, s, e)?;
            let g_reopen = collect_bb(&mut reopened, &c.name, s, e)?;
            out.count("queries", 3);
            if cached_reads.load(Relaxed) == before {
                out.count("cached_queries_served_without_underlying_reads", 1);
            }
            for (sig, site, d) in judge_bb(vs, s, e, &g_plain, ips, bs) {
                out.viol(&sig, site, d.set("query_index", qi.into()).set("chrom", J::s(c.name.clone())));
            }
            if g_plain != g_cached {
                out.viol("cached_reader_differs", "", J::obj().set("q", J::A(vec![s.into(), e.into()])));
            }
            if g_plain != g_reopen {
                out.viol("reopened_reader_differs", "", J::obj().set("q", J::A(vec![s.into(), e.into()])));
            }
            if r.chance(1, 10) {
                let mut it = plain.get_interval_move(&c.name, s, e).map_err(|e| e.to_string())?;
                let mut g = vec![];
                for v in &mut it {
                    g.push(v.map_err(|e| e.to_string())?);
                }
                plain = it.into();
                if g != g_cached {
                    out.viol("move_api_differs", "", J::obj().set("q", J::A(vec![s.into(), e.into()])));
                }
            }
        }
        Ok(())
    });
    match run {
        Ok(Ok(())) => {}
        Ok(Err(e)) => out.viol("read_failed", wr::truncate(&e, 60), J::s(e)),
        Err(p) => out.viol("read_panicked", wr::panic_site(&p), J::A(p.into_iter().map(J::S).collect())),
    }
    out.hash = qhash.hex();
    out.nontrivial = case.input.iter().any(|(_, v)| v.len() > ips);
    for t in &case.tags {
        out.tag(t.clone());
    }
    // does this case contain what the property singles out?
    for (_, vs) in &case.input {
        for (bi, b) in vs.chunks(ips).enumerate() {
            let mx = b.iter().map(|e| e.end).max().unwrap();
            if mx > b.last().unwrap().end {
                out.tag("block_max_end_not_last");
                if (bi + 1) % bs != 0 && (bi + 1) * ips < vs.len() {
                    out.tag("block_max_end_not_last_and_block_not_last_child");
                }
            }
        }
    }
    out
}

/// C03, reopened readers under concurrency: "the answer is the same ... through a reopened reader".
/// The real `Reopen` implementation (ReopenableFile on a file on disk) is what the tools use from
/// several threads at once; every reopened reader must be independent of the others' seeks and reads.
pub fn c03r(ctx: &Ctx, begin: &mut dyn FnMut(J)) -> Outcome {
    let mut r = Rng::derive(ctx.seed, 0xC03A, ctx.case);
    let mut case = gen_bw_case(
        &mut r,
        &BwGenCfg { allow_zero_len: false, huge_ok: false, small_slots: true, allow_unsorted_chroms: false, max_chroms: 3, force_exact: false },
    );
    case.opts.source = Source::Serial;
    // enough blocks that queries take several seek+read pairs
    for (c, vs) in case.input.iter_mut() {
        let mut pos = vs.last().map(|v| v.end).unwrap_or(0);
        while vs.len() < 400 && pos + 10 < c.size.max(6000) {
            let len = r.range(1, 6) as u32;
            vs.push(Value { start: pos, end: pos + len, value: gen_value(&mut r, true) });
            pos += len + r.below(4) as u32;
        }
        c.size = c.size.max(pos + 10);
    }
    let nthreads = *r.pick(&[2usize, 4, 8]);
    begin(J::obj().set("opts", case.opts.to_json()).set("threads", nthreads.into()).set("values_per_chrom", J::A(case.input.iter().map(|(_, v)| J::U(v.len() as u64)).collect())));
    let mut out = Outcome::new();
    out.hash = format!("{}:{}", case.hash, nthreads);
    out.nontrivial = true;
    let sink = MemSink::new();
    if !matches!(wr::write_bw(sink.clone(), &case.input, &case.opts, Some(&ctx.scratch), &[]), CallResult::Ok) {
        out.inconclusive = Some("blocked_by:C01 write failed".into());
        return out;
    }
    let path = wr::scratch_file(&ctx.scratch, "bw");
    if std::fs::write(&path, sink.bytes()).is_err() {
        out.inconclusive = Some("HARNESS cannot write scratch file".into());
        return out;
    }
    let input = Arc::new(case.input.clone());
    let run = wr::guard(|| -> Result<Vec<String>, String> {
        let base = BigWigRead::open_file(&path).map_err(|e| format!("open: {}", e))?;
        let mut handles = vec![];
        for t in 0..nthreads {
            let seed = ctx.seed ^ (ctx.case * 1000 + t as u64);
            let input = input.clone();
            let plain = base.reopen().map_err(|e| format!("reopen: {}", e))?;
            let use_cached = t % 2 == 1;
            handles.push(std::thread::spawn(move || -> Vec<String> {
                let mut r = Rng::new(seed);
                let mut bad = vec![];
                let mut plain = Some(plain);
                let mut cached = if use_cached { Some(plain.take().unwrap().cached()) } else { None };
                for _ in 0..150 {
                    let ci = r.below(input.len() as u64) as usize;
                    let (c, vs) = &input[ci];
                    let a = r.below(c.size as u64 + 1) as u32;
                    let b = (a + r.below(400) as u32).min(c.size);
                    let got = std::panic::catch_unwind(std::panic::AssertUnwindSafe(|| match (&mut plain, &mut cached) {
                        (Some(p), _) => collect_bw(p, &c.name, a, b),
                        (_, Some(cd)) => collect_bw(cd, &c.name, a, b),
                        _ => unreachable!(),
                    }));
                    match got {
                        Ok(Ok(g)) => {
                            if let Some((sig, _, _)) = judge_bw(vs, a, b, &g) {
                                bad.push(format!("wrong_answer:{}", sig));
                            }
                        }
                        Ok(Err(e)) => bad.push(format!("error:{}", wr::truncate(&e, 40))),
                        Err(_) => bad.push("panic".to_string()),
                    }
                }
                bad
            }));
        }
        let mut all = vec![];
        for h in handles {
            all.extend(h.join().map_err(|_| "thread panicked outside the guarded call".to_string())?);
        }
        Ok(all)
    });
    let _ = std::fs::remove_file(&path);
    let _ = wr::take_panics();
    match run {
        Ok(Ok(bad)) => {
            out.count("concurrent_reopened_queries", (nthreads * 150) as u64);
            if !bad.is_empty() {
                let kind = if bad.iter().any(|b| b.starts_with("wrong_answer")) {
                    "wrong_answer"
                } else if bad.iter().any(|b| b == "panic") {
                    "panic"
                } else {
                    "error"
                };
                out.viol("concurrent_reopened_readers_interfere", kind, J::obj().set("threads", nthreads.into()).set("bad_queries", bad.len().into()).set("examples", J::A(bad.iter().take(5).cloned().map(J::S).collect())));
            }
        }
        Ok(Err(e)) => out.viol("read_failed", wr::truncate(&e, 60), J::s(e)),
        Err(p) => out.viol("read_panicked", wr::panic_site(&p), J::A(p.into_iter().map(J::S).collect())),
    }
    out
}
