"""Build steps. Everything is rebuilt (incrementally) from /repo's working tree."""
import filecmp
import os
import shutil
import subprocess
import sys
import time

VERIF = "/verif"
REPO = "/repo"
TARGET_HOOKS = VERIF + "/target/hooks"
TARGET_REPO = VERIF + "/target/repo"
GUARD = "--cfg bigtools_verif"
PYEXT_DIR = VERIF + "/target/pyext"


def _env(extra=None):
    e = dict(os.environ)
    e["CARGO_NET_OFFLINE"] = "true"
    e["RUSTFLAGS"] = GUARD
    e.pop("RUSTC_WRAPPER", None)
    if extra:
        e.update(extra)
    return e


class BuildError(Exception):
    pass


def _run(cmd, cwd, env, what, timeout=1800):
    t0 = time.time()
    p = subprocess.run(cmd, cwd=cwd, env=env, stdout=subprocess.PIPE, stderr=subprocess.STDOUT, text=True, timeout=timeout)
    if p.returncode != 0:
        tail = "\n".join(p.stdout.splitlines()[-40:])
        raise BuildError("%s failed (rc %d):\n%s" % (what, p.returncode, tail))
    return time.time() - t0


def sync_lock():
    src = REPO + "/Cargo.lock"
    saved = VERIF + "/harness/.repo.lock.copy"
    dst = VERIF + "/harness/Cargo.lock"
    if not os.path.exists(dst) or not os.path.exists(saved) or not filecmp.cmp(src, saved, shallow=False):
        shutil.copyfile(src, dst)
        shutil.copyfile(src, saved)


def harness(profile="release"):
    sync_lock()
    cmd = ["cargo", "build", "--offline", "--quiet"]
    cmd += ["--release"] if profile == "release" else ["--profile", profile]
    return _run(cmd, VERIF + "/harness", _env({"CARGO_TARGET_DIR": TARGET_HOOKS}), "harness build (%s)" % profile)


def cli_bins():
    """CLI binaries from /repo with hooks compiled in (inert: no callback is ever installed)."""
    cmd = [
        "cargo", "build", "--offline", "--quiet", "--release", "-p", "bigtools", "--bins",
        "--config", "profile.release.lto=false", "--config", "profile.release.codegen-units=16",
    ]
    return _run(cmd, REPO, _env({"CARGO_TARGET_DIR": TARGET_REPO}), "CLI build")


def bin_path(name):
    return TARGET_REPO + "/release/" + name


def pyext():
    """pybigtools extension for the tooling venv's python (has numpy)."""
    py = "/opt/veriftools/pyvenv/bin/python"
    cmd = [
        "cargo", "build", "--offline", "--quiet", "--release", "-p", "pybigtools",
        "--config", "profile.release.lto=false", "--config", "profile.release.codegen-units=16",
    ]
    t = _run(cmd, REPO, _env({"CARGO_TARGET_DIR": TARGET_REPO, "PYO3_PYTHON": py}), "pybigtools build")
    pkg = PYEXT_DIR + "/pybigtools"
    os.makedirs(pkg, exist_ok=True)
    shutil.copyfile(REPO + "/pybigtools/pybigtools/__init__.py", pkg + "/__init__.py")
    so = TARGET_REPO + "/release/libpybigtools.so"
    dst = pkg + "/pybigtools.so"
    if not os.path.exists(dst) or not filecmp.cmp(so, dst, shallow=False):
        shutil.copyfile(so, dst + ".tmp")
        os.replace(dst + ".tmp", dst)
    return t


if __name__ == "__main__":
    what = sys.argv[1:] or ["harness", "relassert", "cli", "pyext"]
    try:
        for w in what:
            t0 = time.time()
            if w == "harness":
                harness("release")
            elif w == "relassert":
                harness("relassert")
            elif w == "cli":
                cli_bins()
            elif w == "pyext":
                pyext()
            elif w == "miri":
                import sanitizers
                r = sanitizers.miri_c12_leg("quick", 1, "/verif/.work")["run"](None)
                if r.violations or r.inconclusive:
                    print("miri warm-up reported:", r.violations[:1], r.inconclusive[:1])
            print("built %s in %.1fs" % (w, time.time() - t0), flush=True)
    except BuildError as e:
        print(str(e))
        sys.exit(2)
