"""Sharded worker runner with watchdog, three-valued verdicts and aggregation.

A *leg* runs one harness subcommand over N cases on up to 16 shards. Workers speak
JSON lines: begin / end / diverge / done (see harness/src/proto.rs).
"""
import collections
import json
import os
import queue
import subprocess
import threading
import time

HARNESS_BIN = {
    "release": "/verif/target/hooks/release/bvh",
    "relassert": "/verif/target/hooks/relassert/bvh",
}
NCPU = min(16, os.cpu_count() or 4)


class LegResult:
    def __init__(self, name):
        self.name = name
        self.evaluations = 0
        self.held = 0
        self.inconclusive = []  # (case, why)
        self.blocked = 0
        self.violations = []  # dict(sig, case, detail, desc, leg, seed, cmd)
        self.hashes_nt = set()
        self.hashes = set()
        self.tags = collections.Counter()
        self.counts = collections.Counter()
        self.samples = []
        self.opt_values = collections.defaultdict(set)
        self.opt_pairs = set()
        self.notes = []
        self.wall_s = 0.0
        self.harness_errors = []
        self.sets = collections.defaultdict(set)

    def merge_into(self, cov):
        pass


def _shrink(obj, depth=0):
    """Shrink a case descriptor for the evidence samples."""
    if isinstance(obj, list):
        if len(obj) > 6:
            return [_shrink(x, depth + 1) for x in obj[:5]] + ["... %d more" % (len(obj) - 5)]
        return [_shrink(x, depth + 1) for x in obj]
    if isinstance(obj, dict):
        return {k: _shrink(v, depth + 1) for k, v in obj.items()}
    if isinstance(obj, str) and len(obj) > 300:
        return obj[:300] + "..."
    return obj


class _Worker:
    def __init__(self, leg, shard, nshards, start_from, only=None, env=None):
        self.leg = leg
        self.shard = shard
        args = [
            HARNESS_BIN[leg.get("profile", "release")],
            leg["cmd"],
            "--seed", str(leg["seed"]),
            "--cases", str(leg["cases"]),
            "--tier", leg["tier"],
            "--scratch", leg["scratch"],
        ]
        if leg.get("arg"):
            args += ["--arg", leg["arg"]]
        if only is not None:
            args += ["--only", str(only)]
        else:
            args += ["--shard", "%d/%d" % (shard, nshards), "--from", str(start_from)]
        e = dict(os.environ)
        e["RUST_BACKTRACE"] = "0"
        if env:
            e.update(env)
        self.proc = subprocess.Popen(args, stdout=subprocess.PIPE, stderr=subprocess.DEVNULL, env=e, text=True, errors="replace")
        self.last = time.time()
        self.open_case = None
        self.open_desc = None
        self.last_ended = None
        self.done = False
        self.q = queue.Queue()
        self.t = threading.Thread(target=self._read, daemon=True)
        self.t.start()

    def _read(self):
        for line in self.proc.stdout:
            self.q.put(line)
        self.q.put(None)

    def kill(self):
        try:
            self.proc.kill()
        except Exception:
            pass
        try:
            self.proc.wait(timeout=5)
        except Exception:
            pass


def _record_end(res, leg, j, desc):
    res.evaluations += 1
    h = j.get("hash") or ""
    if h:
        res.hashes.add(h)
        if j.get("nt"):
            res.hashes_nt.add(h)
    for t in j.get("tags", []):
        res.tags[t] += 1
    for k, v in j.get("counts", {}).items():
        res.counts[k] += v
    for k, v in j.get("sets", {}).items():
        res.sets[k].update(v)
    if j.get("note") is not None and len(res.notes) < 20:
        res.notes.append(j["note"])
    st = j["status"]
    if st == "held":
        res.held += 1
    elif st == "inconclusive":
        why = j.get("why", "?")
        if why.startswith("blocked_by"):
            res.blocked += 1
            res.tags["blocked:" + why.split()[0]] += 1
        else:
            res.inconclusive.append((j["case"], why))
    else:
        for v in j["viols"]:
            sig = v["class"] + (":" + v["site"] if v["site"] else "")
            res.violations.append(dict(sig=sig, case=j["case"], detail=v["detail"], desc=desc, cmd=leg["cmd"], seed=leg["seed"], tier=leg["tier"], arg=leg.get("arg", ""), profile=leg.get("profile", "release")))
    if isinstance(desc, dict):
        if len(res.samples) < 3 and (j.get("nt") or res.evaluations > 50):
            res.samples.append(_shrink(desc))
        o = desc.get("opts")
        if isinstance(o, dict):
            items = sorted((k, json.dumps(v)) for k, v in o.items())
            for k, v in items:
                res.opt_values[k].add(v)
            for i in range(len(items)):
                for k2 in range(i + 1, len(items)):
                    res.opt_pairs.add((items[i], items[k2]))


def _retry_alone(leg, case, budget):
    """Re-run one case alone; returns ('ended', j, desc) | ('hung',) | ('died', rc) | ('diverge', j)"""
    w = _Worker(leg, 0, 1, 0, only=case)
    desc = None
    t0 = time.time()
    try:
        while True:
            try:
                line = w.q.get(timeout=1.0)
            except queue.Empty:
                if time.time() - t0 > budget:
                    return ("hung",)
                continue
            if line is None:
                rc = w.proc.wait()
                return ("died", rc)
            try:
                j = json.loads(line)
            except Exception:
                continue
            t0 = time.time()  # any protocol line (begin / tick / end) is progress: the budget is a quiescence bound
            if j["ev"] == "begin":
                desc = j.get("desc")
            elif j["ev"] == "end":
                return ("ended", j, desc)
            elif j["ev"] == "diverge":
                return ("diverge", j, desc)
    finally:
        w.kill()


def run_leg(leg, log=None):
    """leg: dict(cmd, cases, seed, tier, scratch, profile?, arg?, stall_s?, name?, env?, max_wall_s?)"""
    res = LegResult(leg.get("name", leg["cmd"]))
    t0 = time.time()
    nshards = min(NCPU, max(1, leg["cases"]))
    if leg.get("serial"):
        nshards = 1
    stall_s = leg.get("stall_s", 20)
    max_wall = leg.get("max_wall_s", 3600)
    workers = {}
    for s in range(nshards):
        workers[s] = _Worker(leg, s, nshards, 0, env=leg.get("env"))
    suspects = []  # (case, desc, kind)
    restarts = 0
    while workers:
        if len(suspects) > restarts:
            restarts = len(suspects)
        if restarts > 48:
            res.harness_errors.append("more than 48 worker restarts in leg %s: giving up on the remaining cases" % res.name)
            for w in workers.values():
                w.kill()
            workers = {}
            break
        progressed = False
        for s, w in list(workers.items()):
            try:
                while True:
                    line = w.q.get_nowait()
                    progressed = True
                    w.last = time.time()
                    if line is None:
                        rc = w.proc.wait()
                        if not w.done:
                            # died without 'done'
                            k = w.open_case
                            if k is not None:
                                suspects.append((k, w.open_desc, "died:%s" % rc))
                                del workers[s]
                                workers[s] = _Worker(leg, s, nshards, k + 1, env=leg.get("env"))
                            elif rc == 78 and w.last_ended is not None:
                                # deliberate exit right after reporting a verdict (a thread was stuck): carry on
                                k = w.last_ended
                                del workers[s]
                                workers[s] = _Worker(leg, s, nshards, k + 1, env=leg.get("env"))
                            else:
                                res.harness_errors.append("worker %d exited rc=%s with no open case" % (s, rc))
                                del workers[s]
                        else:
                            del workers[s]
                        break
                    try:
                        j = json.loads(line)
                    except Exception:
                        res.harness_errors.append("unparsable line: %r" % line[:200])
                        continue
                    ev = j.get("ev")
                    if ev == "begin":
                        w.open_case = j["case"]
                        w.open_desc = j.get("desc")
                    elif ev == "end":
                        _record_end(res, leg, j, w.open_desc)
                        w.last_ended = j.get("case")
                        w.open_case = None
                        w.open_desc = None
                    elif ev == "diverge":
                        res.evaluations += 1
                        res.violations.append(dict(sig="diverges:" + j["what"].split(":")[0], case=j["case"], detail=j["what"], desc=w.open_desc, cmd=leg["cmd"], seed=leg["seed"], tier=leg["tier"], arg=leg.get("arg", ""), profile=leg.get("profile", "release")))
                        k = j["case"]
                        w.done = True  # expected exit
                        w.kill()
                        del workers[s]
                        workers[s] = _Worker(leg, s, nshards, k + 1, env=leg.get("env"))
                        break
                    elif ev == "done":
                        w.done = True
            except queue.Empty:
                pass
        now = time.time()
        for s, w in list(workers.items()):
            if now - w.last > stall_s and w.open_case is not None:
                k = w.open_case
                suspects.append((k, w.open_desc, "stalled"))
                w.kill()
                del workers[s]
                workers[s] = _Worker(leg, s, nshards, k + 1, env=leg.get("env"))
            elif now - w.last > stall_s * 3 and w.open_case is None and not w.done:
                res.harness_errors.append("worker %d silent with no open case" % s)
                w.kill()
                del workers[s]
        if now - t0 > max_wall:
            res.harness_errors.append("leg exceeded max wall time %ss" % max_wall)
            for w in workers.values():
                w.kill()
            workers = {}
        if not progressed:
            time.sleep(0.02)
    # confirm suspects alone, on an otherwise idle machine (at most 4 per leg: once a tree is
    # that broken, more isolated re-runs add time, not information)
    if len(suspects) > 4:
        for (k, desc, kind) in suspects[4:]:
            res.evaluations += 1
            res.tags["suspect_not_rerun_alone:" + kind.split(":")[0]] += 1
        suspects = suspects[:4]
    for (k, desc, kind) in suspects:
        res.evaluations += 1
        outcomes = []
        tries = 3 if kind == "stalled" else 2
        for _ in range(tries):
            o = _retry_alone(leg, k, leg.get("retry_budget_s", 60))
            outcomes.append(o)
            if o[0] in ("ended", "diverge"):
                break
        last = outcomes[-1]
        base = dict(case=k, desc=desc, cmd=leg["cmd"], seed=leg["seed"], tier=leg["tier"], arg=leg.get("arg", ""), profile=leg.get("profile", "release"))
        if last[0] == "ended":
            res.evaluations -= 1
            _record_end(res, leg, last[1], last[2] or desc)
            if kind == "stalled":
                res.tags["stalled_once_then_finished"] += 1
        elif last[0] == "diverge":
            res.violations.append(dict(base, sig="diverges:" + last[1]["what"].split(":")[0], detail=last[1]["what"]))
        elif all(o[0] == "hung" for o in outcomes):
            res.violations.append(dict(base, sig="no_progress:" + leg["cmd"], detail="no protocol line for %ss in the sharded run and for %ss in each of %d isolated re-runs" % (stall_s, leg.get("retry_budget_s", 60), len(outcomes))))
        elif all(o[0] == "died" for o in outcomes):
            res.violations.append(dict(base, sig="process_died:rc=%s" % outcomes[-1][1], detail="worker died (rc %s) on this case in the sharded run and in %d isolated re-runs" % (outcomes[-1][1], len(outcomes))))
        else:
            res.inconclusive.append((k, "%s then %s" % (kind, [o[0] for o in outcomes])))
    res.wall_s = time.time() - t0
    return res
