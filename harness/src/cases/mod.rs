pub mod asql;
pub mod fault;
pub mod query;
pub mod readq;
pub mod refuse;
pub mod rt;
pub mod rtree;
pub mod sched;
pub mod signal;
pub mod slice;
pub mod tfb;
pub mod zoom;

use crate::proto::Tier;
use std::path::Path;

/// Subcommands that do not follow the per-case protocol.
pub fn special(cmd: &str, _seed: u64, tier: Tier, _scratch: &Path, _arg: &str) -> Option<i32> {
    match cmd {
        "readq" => Some(readq::run(_arg)),
        "c12x-count" => {
            println!("{}", tfb::histories(tier).len());
            Some(0)
        }
        "c18i-count" => {
            println!("{}", slice::run_vectors().len());
            Some(0)
        }
        "c05-count" => {
            println!("{}", rtree::shapes(tier).len());
            Some(0)
        }
        _ => None,
    }
}
