"""Validating decoder for BBI (bigWig / bigBed) files.

    d = decode(data)            # never raises for malformed content
    d.problems                  # [(class, site, detail)]  -- violations of the format
    d.notes                     # [str]                    -- observations that are NOT violations
    recompute_stats(d)          # [(class, site, detail)]  -- stored statistics vs. the decoded records

class/site are short deterministic strings; numbers and offsets only ever go into detail.
Python stdlib only.
"""
import bisect
import math
import struct
import zlib

BIGWIG_MAGIC = 0x888FFC26
BIGBED_MAGIC = 0x8789F2EB
CHROM_TREE_MAGIC = 0x78CA8C91
RTREE_MAGIC = 0x2468ACE0

MAX_DEPTH = 64


class Truncated(Exception):
    pass


class Decoded(object):
    def __init__(self):
        self.problems = []
        self.notes = []
        self.kind = None  # "bigwig" | "bigbed"
        self.byteorder = None  # "<" | ">"
        self.file_len = 0
        self.version = None
        self.zoom_count = 0
        self.chrom_tree_offset = 0
        self.full_data_offset = 0
        self.full_index_offset = 0
        self.field_count = 0
        self.defined_field_count = 0
        self.autosql_offset = 0
        self.total_summary_offset = 0
        self.uncompress_buf_size = 0
        self.reserved = 0
        self.autosql = None  # str | None
        self.total_summary = None  # dict(bases, min, max, sum, sumsq) | None
        self.data_count = None
        self.has_data_count_word = True
        # chromosome tree
        self.chroms = []  # [(name, id, size)] in key (leaf) order
        self.chrom_tree = {}  # block_size, key_size, val_size, item_count, levels, nodes, sorted, searchable
        # main index / data
        self.main_index = None  # dict, see _parse_rtree
        self.values = {}  # chrom id -> [(start, end, value(float), bits(u32))]  bigWig, file order
        self.entries = {}  # chrom id -> [(start, end, rest(str))]               bigBed, file order
        self.sections = []  # bigWig: [(chrom id, type, item count)] in file order
        self.block_count = 0
        self.max_items_per_block = 0
        self.max_inflated = 0
        self.has_zero_length = False
        # zoom levels
        self.zooms = []  # [dict(reduction, data_offset, index_offset, count_word, index, records, blocks, max_items_per_block)]
        self.trailing_magic = None
        self.regions = []  # (start, end, label)

    def problem(self, cls, site, detail=""):
        self.problems.append((cls, site, str(detail)))

    def note(self, s):
        if len(self.notes) < 200:
            self.notes.append(s)

    # --- abstract content, for encoder/decoder identity and sidecar comparison
    def chroms_by_id(self):
        return sorted(self.chroms, key=lambda c: c[1])


class _Rd(object):
    def __init__(self, data, bo):
        self.d = data
        self.bo = bo
        self.n = len(data)
        self.s_u16 = struct.Struct(bo + "H")
        self.s_u32 = struct.Struct(bo + "I")
        self.s_u64 = struct.Struct(bo + "Q")
        self.s_f32 = struct.Struct(bo + "f")
        self.s_f64 = struct.Struct(bo + "d")

    def need(self, off, n):
        if off < 0 or n < 0 or off + n > self.n:
            raise Truncated("need %d bytes at offset %d, file has %d" % (n, off, self.n))

    def u8(self, off):
        self.need(off, 1)
        return self.d[off]

    def u16(self, off):
        self.need(off, 2)
        return self.s_u16.unpack_from(self.d, off)[0]

    def u32(self, off):
        self.need(off, 4)
        return self.s_u32.unpack_from(self.d, off)[0]

    def u64(self, off):
        self.need(off, 8)
        return self.s_u64.unpack_from(self.d, off)[0]

    def f64(self, off):
        self.need(off, 8)
        return self.s_f64.unpack_from(self.d, off)[0]

    def raw(self, off, n):
        self.need(off, n)
        return self.d[off:off + n]


def decode(data):
    d = Decoded()
    try:
        _decode(d, bytes(data))
    except Truncated as e:
        d.problem("truncated", "file", e)
    except Exception as e:  # a decoder bug or something wildly unexpected: say so, do not raise
        import traceback
        tb = traceback.extract_tb(e.__traceback__)
        where = "%s:%d" % (tb[-1].name, tb[-1].lineno) if tb else "?"
        d.problem("decoder_exception", "decoder", "%s: %s at %s" % (type(e).__name__, e, where))
    return d


def _decode(d, data):
    d.file_len = n = len(data)
    if n < 64:
        d.problem("file_too_short", "header", "%d bytes" % n)
        return
    m_le = struct.unpack_from("<I", data, 0)[0]
    m_be = struct.unpack_from(">I", data, 0)[0]
    if m_le in (BIGWIG_MAGIC, BIGBED_MAGIC):
        bo, magic = "<", m_le
    elif m_be in (BIGWIG_MAGIC, BIGBED_MAGIC):
        bo, magic = ">", m_be
    else:
        d.problem("bad_magic", "header", "0x%08x" % m_le)
        return
    d.byteorder = bo
    d.kind = "bigwig" if magic == BIGWIG_MAGIC else "bigbed"
    d.magic = magic
    r = _Rd(data, bo)
    (_, d.version, d.zoom_count, d.chrom_tree_offset, d.full_data_offset, d.full_index_offset, d.field_count,
     d.defined_field_count, d.autosql_offset, d.total_summary_offset, d.uncompress_buf_size, d.reserved) = struct.unpack_from(bo + "IHHQQQHHQQIQ", data, 0)
    d.regions.append((0, 64, "header"))
    old = d.version < 4
    if d.version < 1 or d.version > 4:
        d.problem("bad_version", "header", d.version)
    if d.reserved != 0:
        d.problem("header_reserved_nonzero", "header", d.reserved)
    for name, off in (("chromosomeTreeOffset", d.chrom_tree_offset), ("fullDataOffset", d.full_data_offset), ("fullIndexOffset", d.full_index_offset)):
        if off < 64 or off >= n:
            d.problem("offset_outside_file", "header_" + name, off)
    # --- zoom headers
    zheads = []
    if d.zoom_count > 10:
        d.problem("too_many_zoom_levels", "header", d.zoom_count)
    if 64 + 24 * d.zoom_count > n:
        d.problem("truncated", "zoom_headers", "zoom headers run past the end of the file")
    else:
        prev = None
        for i in range(d.zoom_count):
            red, res, doff, ioff = struct.unpack_from(bo + "IIQQ", data, 64 + 24 * i)
            site = "level%d" % (i + 1)
            ok = True
            if res != 0:
                d.problem("zoom_header_reserved_nonzero", site, res)
            if prev is not None and red <= prev:
                d.problem("zoom_reductions_not_increasing", site, "%d after %d" % (red, prev))
            if red == 0:
                d.problem("zoom_reduction_zero", site, "")
            prev = red
            if doff < 64 or doff >= n or ioff < 64 or ioff >= n:
                d.problem("offset_outside_file", site + "_header", "data %d index %d" % (doff, ioff))
                ok = False
            elif doff >= ioff:
                d.note("%s: zoom dataOffset %d is not before indexOffset %d" % (site, doff, ioff))
            zheads.append((red, doff, ioff, ok))
        if d.zoom_count:
            d.regions.append((64, 64 + 24 * d.zoom_count, "zoom_headers"))
    # --- field counts / autoSql
    if d.kind == "bigwig":
        if d.field_count != 0 or d.defined_field_count != 0 or d.autosql_offset != 0:
            d.problem("bigwig_bed_fields_nonzero", "header", "fieldCount %d definedFieldCount %d autoSqlOffset %d" % (d.field_count, d.defined_field_count, d.autosql_offset))
    else:
        if d.field_count < 3:
            d.problem("field_count_below_3", "header", d.field_count)
        if d.defined_field_count > d.field_count:
            d.problem("defined_field_count_exceeds_field_count", "header", "%d > %d" % (d.defined_field_count, d.field_count))
        if d.autosql_offset != 0:
            if d.autosql_offset < 64 or d.autosql_offset >= n:
                d.problem("offset_outside_file", "header_autoSqlOffset", d.autosql_offset)
            else:
                e = data.find(b"\0", d.autosql_offset)
                if e < 0:
                    d.problem("autosql_not_nul_terminated", "autosql", "")
                else:
                    rawsql = data[d.autosql_offset:e]
                    try:
                        d.autosql = rawsql.decode("utf-8")
                    except UnicodeDecodeError:
                        d.autosql = rawsql.decode("latin-1")
                        d.note("autosql is not UTF-8")
                    d.regions.append((d.autosql_offset, e + 1, "autosql"))
    # --- total summary
    if d.total_summary_offset == 0:
        if old:
            d.note("no total summary (version %d)" % d.version)
        else:
            d.problem("total_summary_missing", "header", "totalSummaryOffset is 0 in a version 4 file")
    elif d.total_summary_offset < 64 or d.total_summary_offset + 40 > n:
        d.problem("offset_outside_file", "header_totalSummaryOffset", d.total_summary_offset)
    else:
        b, mn, mx, sm, sq = struct.unpack_from(bo + "Qdddd", data, d.total_summary_offset)
        d.total_summary = dict(bases=b, min=mn, max=mx, sum=sm, sumsq=sq)
        d.regions.append((d.total_summary_offset, d.total_summary_offset + 40, "total_summary"))
    # --- chromosome tree
    if 64 <= d.chrom_tree_offset < n:
        try:
            _parse_chrom_tree(d, r)
        except Truncated as e:
            d.problem("truncated", "chrom_tree", e)
    # --- main index and data
    if 64 <= d.full_index_offset < n:
        try:
            d.main_index = _parse_rtree(d, r, d.full_index_offset, "main_index")
        except Truncated as e:
            d.problem("truncated", "main_index", e)
    if d.main_index is not None:
        _decode_main_blocks(d, r)
    _check_data_count(d, r)
    # --- zoom levels
    for i, (red, doff, ioff, ok) in enumerate(zheads):
        site = "level%d" % (i + 1)
        z = dict(reduction=red, data_offset=doff, index_offset=ioff, count_word=None, index=None, records=[], blocks=0, max_items_per_block=0)
        d.zooms.append(z)
        if not ok:
            continue
        try:
            z["index"] = _parse_rtree(d, r, ioff, site + "_index")
        except Truncated as e:
            d.problem("truncated", site + "_index", e)
        if z["index"] is not None:
            _decode_zoom_blocks(d, r, z, site)
    # --- trailing magic
    tail = struct.unpack_from(bo + "I", data, n - 4)[0]
    d.trailing_magic = tail == magic
    if d.trailing_magic:
        d.regions.append((n - 4, n, "trailing_magic"))
    elif old:
        d.note("no trailing magic (version %d)" % d.version)
    else:
        d.problem("trailing_magic_missing", "file_end", "last four bytes are 0x%08x" % tail)
    _check_regions(d)


# ---------------------------------------------------------------------------------- chromosome tree

def _parse_chrom_tree(d, r):
    off = d.chrom_tree_offset
    site = "chrom_tree"
    magic = r.u32(off)
    if magic != CHROM_TREE_MAGIC:
        d.problem("bad_magic", site, "0x%08x" % magic)
        return
    block_size, key_size, val_size = r.u32(off + 4), r.u32(off + 8), r.u32(off + 12)
    item_count, reserved = r.u64(off + 16), r.u64(off + 24)
    d.regions.append((off, off + 32, "chrom_tree_header"))
    info = dict(block_size=block_size, key_size=key_size, val_size=val_size, item_count=item_count, levels=0, nodes=0, sorted=None, searchable=None)
    d.chrom_tree = info
    if reserved != 0:
        d.problem("chrom_tree_reserved_nonzero", site, reserved)
    if val_size != 8:
        d.problem("chrom_tree_val_size_not_8", site, val_size)
        return
    if key_size == 0 or key_size > 4096:
        d.problem("chrom_tree_key_size_implausible", site, key_size)
        return
    if block_size == 0:
        d.problem("chrom_tree_block_size_zero", site, "")
    visited = set()
    leaves = []  # (padded key bytes, id, size)
    leaf_depths = set()
    nodes = {}  # offset -> (is_leaf, [(key, child or (id,size))])

    def walk(noff, depth):
        if depth > MAX_DEPTH:
            d.problem("chrom_tree_too_deep", site, "deeper than %d levels" % MAX_DEPTH)
            return
        if noff in visited:
            d.problem("chrom_tree_node_reached_twice", site, "node at %d" % noff)
            return
        visited.add(noff)
        is_leaf, res, count = r.u8(noff), r.u8(noff + 1), r.u16(noff + 2)
        if is_leaf not in (0, 1):
            d.problem("chrom_tree_isleaf_not_0_or_1", site, "%d at %d" % (is_leaf, noff))
            return
        if res != 0:
            d.problem("chrom_tree_node_reserved_nonzero", site, "%d at %d" % (res, noff))
        if count > block_size:
            d.problem("chrom_tree_node_count_exceeds_block_size", site, "%d > %d at %d" % (count, block_size, noff))
        if count == 0 and not (depth == 0 and is_leaf):
            d.problem("chrom_tree_empty_node", site, "node at %d" % noff)
        isz = key_size + 8
        r.need(noff + 4, count * isz)
        d.regions.append((noff, noff + 4 + count * isz, "chrom_tree_node"))
        items = []
        nodes[noff] = (is_leaf, items)
        p = noff + 4
        if is_leaf:
            leaf_depths.add(depth)
            for _ in range(count):
                key = r.raw(p, key_size)
                cid, csz = r.u32(p + key_size), r.u32(p + key_size + 4)
                leaves.append((key, cid, csz))
                items.append((key, (cid, csz)))
                p += isz
        else:
            kids = []
            for _ in range(count):
                key = r.raw(p, key_size)
                child = r.u64(p + key_size)
                items.append((key, child))
                kids.append(child)
                p += isz
            for child in kids:
                if child < 64 or child + 4 > r.n:
                    d.problem("chrom_tree_child_offset_outside_file", site, child)
                    continue
                walk(child, depth + 1)

    walk(off + 32, 0)
    info["nodes"] = len(visited)
    info["levels"] = (max(leaf_depths) + 1) if leaf_depths else 0
    if len(leaf_depths) > 1:
        d.note("chromosome tree leaves at different depths %s" % sorted(leaf_depths))
    names = []
    for key, cid, csz in leaves:
        z = key.find(b"\0")
        nm = key if z < 0 else key[:z]
        if z >= 0 and key[z:].strip(b"\0"):
            d.problem("chrom_key_not_nul_padded", site, repr(key))
        if not nm:
            d.problem("chrom_key_empty", site, "id %d" % cid)
        try:
            s = nm.decode("utf-8")
        except UnicodeDecodeError:
            s = nm.decode("latin-1")
            d.note("chromosome name %r is not UTF-8" % nm)
        names.append(nm)
        d.chroms.append((s, cid, csz))
    if item_count != len(leaves):
        d.problem("chrom_tree_item_count_wrong", site, "header says %d, leaves hold %d" % (item_count, len(leaves)))
    ids = [c[1] for c in d.chroms]
    if len(set(ids)) != len(ids):
        d.problem("chrom_ids_not_unique", site, sorted(ids))
    elif sorted(ids) != list(range(len(ids))):
        d.problem("chrom_ids_not_0_to_n_minus_1", site, sorted(ids))
    if len(set(names)) != len(names):
        d.problem("chrom_names_not_unique", site, "")
    if names:
        longest = max(len(x) for x in names)
        if key_size < longest:
            d.problem("chrom_tree_key_size_wrong", site, "keySize %d < longest name %d" % (key_size, longest))
        elif key_size != longest:
            if d.version is not None and d.version >= 4:
                d.problem("chrom_tree_key_size_wrong", site, "keySize %d, longest name %d" % (key_size, longest))
            else:
                d.note("keySize %d exceeds the longest name %d (version %d)" % (key_size, longest, d.version))
    info["sorted"] = all(leaves[i][0] < leaves[i + 1][0] for i in range(len(leaves) - 1))

    # can every name be found by the standard B+ descent (last child whose key <= wanted)?
    def find(key):
        noff = off + 32
        for _ in range(MAX_DEPTH + 1):
            if noff not in nodes:
                return False
            is_leaf, items = nodes[noff]
            if is_leaf:
                return any(k == key for k, _ in items)
            if not items:
                return False
            pick = items[0][1]
            for k, child in items[1:]:
                if k <= key:
                    pick = child
                else:
                    break
            noff = pick
        return False

    info["searchable"] = all(find(k) for k, _, _ in leaves)


# ---------------------------------------------------------------------------------- R-tree

def _parse_rtree(d, r, off, site):
    magic = r.u32(off)
    if magic != RTREE_MAGIC:
        d.problem("bad_magic", site, "0x%08x at %d" % (magic, off))
        return None
    block_size, item_count = r.u32(off + 4), r.u64(off + 8)
    sc, sb, ec, eb = r.u32(off + 16), r.u32(off + 20), r.u32(off + 24), r.u32(off + 28)
    end_file_offset, items_per_slot, reserved = r.u64(off + 32), r.u32(off + 40), r.u32(off + 44)
    d.regions.append((off, off + 48, site + "_header"))
    t = dict(offset=off, block_size=block_size, item_count=item_count, bounds=(sc, sb, ec, eb), end_file_offset=end_file_offset,
             items_per_slot=items_per_slot, depth=0, nodes=[], leaves=[], nonleaf_nodes=0)
    if reserved != 0:
        d.problem("rtree_reserved_nonzero", site, reserved)
    if items_per_slot == 0:
        d.problem("rtree_items_per_slot_zero", site, "")
    if block_size == 0:
        d.problem("rtree_block_size_zero", site, "")
    visited = set()
    leaf_depths = set()

    def walk(noff, depth):
        """returns (lo, hi) = ((chrom,base) min start, (chrom,base) max end) of all leaf items beneath, or None"""
        if depth > MAX_DEPTH:
            d.problem("rtree_too_deep", site, "deeper than %d levels" % MAX_DEPTH)
            return None
        if noff in visited:
            d.problem("rtree_node_reached_twice", site, "node at %d" % noff)
            return None
        visited.add(noff)
        is_leaf, res, count = r.u8(noff), r.u8(noff + 1), r.u16(noff + 2)
        if is_leaf not in (0, 1):
            d.problem("rtree_isleaf_not_0_or_1", site, "%d at %d" % (is_leaf, noff))
            return None
        if res != 0:
            d.problem("rtree_node_reserved_nonzero", site, "%d at %d" % (res, noff))
        if count > block_size:
            d.problem("rtree_node_count_exceeds_block_size", site, "%d > %d at %d" % (count, block_size, noff))
        if count == 0 and not (depth == 0 and is_leaf):
            d.problem("rtree_empty_node", site, "node at %d" % noff)
        isz = 32 if is_leaf else 24
        r.need(noff + 4, count * isz)
        d.regions.append((noff, noff + 4 + count * isz, site + "_node"))
        t["nodes"].append((noff, is_leaf, count))
        lo = hi = None
        p = noff + 4
        if is_leaf:
            leaf_depths.add(depth)
            for _ in range(count):
                a, b, c, e_ = r.u32(p), r.u32(p + 4), r.u32(p + 8), r.u32(p + 12)
                doff, dsz = r.u64(p + 16), r.u64(p + 24)
                t["leaves"].append((a, b, c, e_, doff, dsz))
                if (a, b) > (c, e_):
                    d.problem("rtree_leaf_span_inverted", site, "(%d,%d)..(%d,%d)" % (a, b, c, e_))
                lo = (a, b) if lo is None else min(lo, (a, b))
                hi = (c, e_) if hi is None else max(hi, (c, e_))
                p += 32
        else:
            t["nonleaf_nodes"] += 1
            kids = []
            for _ in range(count):
                a, b, c, e_ = r.u32(p), r.u32(p + 4), r.u32(p + 8), r.u32(p + 12)
                kids.append((a, b, c, e_, r.u64(p + 16)))
                p += 24
            for a, b, c, e_, child in kids:
                if child < 64 or child + 4 > r.n:
                    d.problem("rtree_child_offset_outside_file", site, child)
                    continue
                sub = walk(child, depth + 1)
                if sub is not None:
                    if (a, b) > sub[0] or (c, e_) < sub[1]:
                        d.problem("rtree_node_span_does_not_contain_subtree", site,
                                  "item (%d,%d)..(%d,%d) at node %d; beneath it (%d,%d)..(%d,%d)" % ((a, b, c, e_, noff) + sub[0] + sub[1]))
                    lo = sub[0] if lo is None else min(lo, sub[0])
                    hi = sub[1] if hi is None else max(hi, sub[1])
        if lo is None:
            return None
        return (lo, hi)

    span = walk(off + 48, 0)
    t["depth"] = (max(leaf_depths) + 1) if leaf_depths else 0
    if len(leaf_depths) > 1:
        d.note("%s: leaves at different depths %s" % (site, sorted(leaf_depths)))
    leaves = t["leaves"]
    if span is not None:
        if (sc, sb) > span[0] or (ec, eb) < span[1]:
            d.problem("rtree_header_bounds_do_not_contain_leaves", site, "header (%d,%d)..(%d,%d); leaves (%d,%d)..(%d,%d)" % ((sc, sb, ec, eb) + span[0] + span[1]))
        elif (sc, sb) != span[0] or (ec, eb) != span[1]:
            d.note("%s: header bounds (%d,%d)..(%d,%d) wider than the leaves (%d,%d)..(%d,%d)" % ((site, sc, sb, ec, eb) + span[0] + span[1]))
    # leaves: inside the file, in file order, contiguous, sorted
    prev = None
    for (a, b, c, e_, doff, dsz) in leaves:
        if doff < 64 or doff + dsz > r.n or dsz == 0:
            d.problem("rtree_leaf_block_outside_file", site, "offset %d size %d" % (doff, dsz))
        if prev is not None:
            pa, pb, pc, pe, poff, psz = prev
            if doff < poff + psz:
                d.problem("rtree_leaves_not_in_file_order", site, "block at %d size %d followed by block at %d" % (poff, psz, doff))
            elif doff != poff + psz:
                d.problem("rtree_leaves_not_contiguous", site, "block at %d size %d followed by block at %d" % (poff, psz, doff))
            if (a, b) < (pa, pb):
                d.problem("rtree_leaves_not_sorted", site, "(%d,%d) after (%d,%d)" % (a, b, pa, pb))
        prev = (a, b, c, e_, doff, dsz)
    if leaves:
        # endFileOffset = "end of the data being indexed". UCSC passes the offset at which it is about to write the
        # index; in its layout (data, then index) the two coincide. A writer that puts another structure between the
        # data and the index and stores the index offset is doing what UCSC's call does: accepted, with a note.
        data_end = max(x[4] + x[5] for x in leaves)
        if end_file_offset == data_end:
            pass
        elif end_file_offset == off:
            d.note("%s: endFileOffset %d is the index offset; the indexed data ends at %d (something sits in between)" % (site, end_file_offset, data_end))
        else:
            d.problem("rtree_end_file_offset_wrong", site, "endFileOffset %d, data indexed ends at %d, index at %d" % (end_file_offset, data_end, off))
    return t


def _check_item_count(d, t, site, n_items):
    """R-tree itemCount: writers disagree (number of indexed blocks vs. number of items); flag only if neither."""
    if t["item_count"] not in (len(t["leaves"]), n_items):
        d.problem("rtree_item_count_wrong", site, "itemCount %d; %d leaves, %d items" % (t["item_count"], len(t["leaves"]), n_items))


def _inflate(d, r, doff, dsz, site):
    raw = r.raw(doff, dsz)
    if d.uncompress_buf_size == 0:
        return raw
    try:
        z = zlib.decompressobj()
        out = z.decompress(raw)
        if not z.eof:
            d.problem("block_zlib_stream_incomplete", site, "block at %d size %d" % (doff, dsz))
            return None
        if z.unused_data:
            d.problem("block_bytes_after_zlib_stream", site, "block at %d: %d unused bytes" % (doff, len(z.unused_data)))
    except zlib.error as e:
        d.problem("block_not_a_zlib_stream", site, "block at %d size %d: %s" % (doff, dsz, e))
        return None
    if len(out) > d.uncompress_buf_size:
        d.problem("inflated_block_exceeds_uncompress_buf_size", site, "block at %d inflates to %d > %d" % (doff, len(out), d.uncompress_buf_size))
    if len(out) > d.max_inflated:
        d.max_inflated = len(out)
    return out


def _check_leaf_vs_items(d, site, leaf, chrom_ids, lo, hi):
    a, b, c, e_, doff, dsz = leaf
    if len(chrom_ids) > 1:
        d.problem("block_spans_chromosomes", site, "block at %d holds chromosome ids %s" % (doff, sorted(chrom_ids)))
        return
    cid = next(iter(chrom_ids))
    if a != cid or c != cid:
        d.problem("leaf_chrom_differs_from_items", site, "leaf (%d..%d), items on chromosome id %d, block at %d" % (a, c, cid, doff))
    elif b > lo or e_ < hi:
        d.problem("leaf_span_does_not_contain_items", site, "leaf [%d,%d) items span [%d,%d) chromosome id %d block at %d" % (b, e_, lo, hi, cid, doff))
    elif b != lo or e_ != hi:
        d.note("%s: leaf [%d,%d) wider than its items [%d,%d)" % (site, b, e_, lo, hi))


def _decode_main_blocks(d, r):
    site = "main_data"
    bo = d.byteorder
    t = d.main_index
    sizes = dict((c[1], c[2]) for c in d.chroms)
    n_items = 0
    hdr = struct.Struct(bo + "IIIIIBBH")
    s1 = struct.Struct(bo + "II4s")
    s2 = struct.Struct(bo + "I4s")
    s_f = struct.Struct(bo + "f")
    s_i = struct.Struct(bo + "I")
    s3 = struct.Struct(bo + "III")
    for leaf in t["leaves"]:
        doff, dsz = leaf[4], leaf[5]
        if doff < 64 or doff + dsz > r.n or dsz == 0:
            continue
        d.regions.append((doff, doff + dsz, "data_block"))
        blk = _inflate(d, r, doff, dsz, site)
        if blk is None:
            continue
        d.block_count += 1
        if d.kind == "bigwig":
            if len(blk) < 24:
                d.problem("section_too_short", site, "block at %d: %d bytes" % (doff, len(blk)))
                continue
            cid, cstart, cend, step, span, typ, res, cnt = hdr.unpack_from(blk, 0)
            if typ not in (1, 2, 3):
                d.problem("section_type_unknown", site, "type %d, block at %d" % (typ, doff))
                continue
            if res != 0:
                d.problem("section_reserved_nonzero", site, "block at %d" % doff)
            isz = (12, 8, 4)[typ - 1]
            if len(blk) != 24 + cnt * isz:
                d.problem("section_length_wrong", site, "type %d, %d items need %d bytes, block at %d has %d" % (typ, cnt, 24 + cnt * isz, doff, len(blk)))
                if len(blk) < 24 + cnt * isz:
                    continue
            if cnt == 0:
                d.problem("section_empty", site, "block at %d" % doff)
                continue
            items = []
            p = 24
            for i in range(cnt):
                if typ == 1:
                    s, e, vb = s1.unpack_from(blk, p)
                elif typ == 2:
                    s, vb = s2.unpack_from(blk, p)
                    e = s + span
                else:
                    vb = blk[p:p + 4]
                    s = cstart + i * step
                    e = s + span
                p += isz
                items.append((s, e, s_f.unpack(vb)[0], s_i.unpack(vb)[0]))
            d.sections.append((cid, typ, cnt))
            if cid not in sizes:
                d.problem("block_chrom_id_unknown", site, "chromosome id %d, block at %d" % (cid, doff))
            lo = min(x[0] for x in items)
            hi = max(x[1] for x in items)
            for (s, e, _, _) in items:
                if s > e:
                    d.problem("item_start_after_end", site, "[%d,%d) block at %d" % (s, e, doff))
                elif s == e:
                    d.has_zero_length = True
                if cid in sizes and e > sizes[cid]:
                    d.problem("item_beyond_chromosome_end", site, "[%d,%d) on a chromosome of size %d" % (s, e, sizes[cid]))
            if cstart > lo or cend < hi:
                d.problem("section_header_span_does_not_contain_items", site, "header [%d,%d) items [%d,%d) block at %d" % (cstart, cend, lo, hi, doff))
            elif cstart != lo or cend != hi:
                d.note("section header [%d,%d) wider than items [%d,%d)" % (cstart, cend, lo, hi))
            lst = d.values.setdefault(cid, [])
            if lst and items[0][0] < lst[-1][1]:
                d.problem("items_overlap_or_unsorted", site, "[%d,%d) follows [%d,%d) chromosome id %d" % (items[0][0], items[0][1], lst[-1][0], lst[-1][1], cid))
            for i in range(1, len(items)):
                if items[i][0] < items[i - 1][1]:
                    d.problem("items_overlap_or_unsorted", site, "[%d,%d) follows [%d,%d) chromosome id %d" % (items[i][0], items[i][1], items[i - 1][0], items[i - 1][1], cid))
            lst.extend(items)
            _check_leaf_vs_items(d, "main_index", leaf, {cid}, lo, hi)
            n = cnt
        else:
            p = 0
            n = 0
            cids = set()
            lo = hi = None
            bad = False
            while p < len(blk):
                if p + 12 > len(blk):
                    d.problem("bed_record_truncated", site, "block at %d" % doff)
                    bad = True
                    break
                cid, s, e = s3.unpack_from(blk, p)
                z = blk.find(b"\0", p + 12)
                if z < 0:
                    d.problem("bed_record_not_nul_terminated", site, "block at %d" % doff)
                    bad = True
                    break
                rest = blk[p + 12:z]
                try:
                    rest_s = rest.decode("utf-8")
                except UnicodeDecodeError:
                    rest_s = rest.decode("latin-1")
                    d.note("bed rest field is not UTF-8")
                p = z + 1
                n += 1
                cids.add(cid)
                if s > e:
                    d.problem("item_start_after_end", site, "[%d,%d) block at %d" % (s, e, doff))
                elif s == e:
                    d.has_zero_length = True
                if cid in sizes and e > sizes[cid]:
                    d.problem("item_beyond_chromosome_end", site, "[%d,%d) on a chromosome of size %d" % (s, e, sizes[cid]))
                if cid not in sizes:
                    d.problem("block_chrom_id_unknown", site, "chromosome id %d, block at %d" % (cid, doff))
                lst = d.entries.setdefault(cid, [])
                if lst and s < lst[-1][0]:
                    d.problem("items_overlap_or_unsorted", site, "start %d follows start %d, chromosome id %d" % (s, lst[-1][0], cid))
                lst.append((s, e, rest_s))
                lo = s if lo is None else min(lo, s)
                hi = e if hi is None else max(hi, e)
            if n == 0 and not bad:
                d.problem("block_empty", site, "block at %d" % doff)
            if n:
                _check_leaf_vs_items(d, "main_index", leaf, cids, lo, hi)
        n_items += n
        if n > d.max_items_per_block:
            d.max_items_per_block = n
        if n > t["items_per_slot"]:
            d.problem("block_holds_more_than_items_per_slot", site, "%d items, itemsPerSlot %d, block at %d" % (n, t["items_per_slot"], doff))
    d.n_items = n_items
    _check_item_count(d, t, "main_index", n_items)


def _check_data_count(d, r):
    site = "data_count"
    off = d.full_data_offset
    if not (64 <= off and off + 8 <= r.n):
        return
    t = d.main_index
    first = t["leaves"][0][4] if t and t["leaves"] else None
    if first is not None and first == off:
        d.has_data_count_word = False
        d.data_count = None
        d.problem("data_count_word_missing", site, "the first data block starts at fullDataOffset")
        return
    want = None
    if t is not None:
        want = len(t["leaves"]) if d.kind == "bigwig" else getattr(d, "n_items", 0)
    v64 = r.u64(off)
    v32 = r.u32(off)
    d.data_count = v64
    d.regions.append((off, off + 8, "data_count"))
    if first is not None and first != off + 8:
        if first == off + 4 and d.version < 4:
            d.note("dataCount is a u32 (version %d)" % d.version)
            d.data_count = v32
            d.regions[-1] = (off, off + 4, "data_count")
        else:
            d.note("first data block at %d does not follow the dataCount word at %d" % (first, off))
    if want is not None and d.data_count != want:
        if d.version < 4 and v32 == want:
            d.note("dataCount matches only as a u32 (version %d)" % d.version)
            d.data_count = v32
        else:
            d.problem("data_count_wrong", site, "dataCount %d, file holds %d %s" % (d.data_count, want, "sections" if d.kind == "bigwig" else "items"))


def _decode_zoom_blocks(d, r, z, site):
    bo = d.byteorder
    t = z["index"]
    rec = struct.Struct(bo + "IIII4s4s4s4s")
    s_f = struct.Struct(bo + "f")
    s_i = struct.Struct(bo + "I")
    dsite = site + "_data"
    first = t["leaves"][0][4] if t["leaves"] else None
    if first is not None:
        if first == z["data_offset"]:
            z["count_word"] = False
        elif first == z["data_offset"] + 4:
            z["count_word"] = True
            d.regions.append((z["data_offset"], z["data_offset"] + 4, "zoom_count_word"))
        else:
            d.note("%s: first zoom block at %d, zoom dataOffset %d" % (site, first, z["data_offset"]))
    for leaf in t["leaves"]:
        doff, dsz = leaf[4], leaf[5]
        if doff < 64 or doff + dsz > r.n or dsz == 0:
            continue
        d.regions.append((doff, doff + dsz, "zoom_block"))
        blk = _inflate(d, r, doff, dsz, dsite)
        if blk is None:
            continue
        z["blocks"] += 1
        if len(blk) % 32 != 0 or len(blk) == 0:
            d.problem("zoom_block_length_not_multiple_of_32", dsite, "block at %d: %d bytes" % (doff, len(blk)))
            if len(blk) < 32:
                continue
        n = len(blk) // 32
        cids = set()
        lo = hi = None
        for i in range(n):
            cid, s, e, valid, mn, mx, sm, sq = rec.unpack_from(blk, 32 * i)
            cids.add(cid)
            lo = s if lo is None else min(lo, s)
            hi = e if hi is None else max(hi, e)
            z["records"].append(dict(chrom=cid, start=s, end=e, valid=valid,
                                     min=s_f.unpack(mn)[0], max=s_f.unpack(mx)[0], sum=s_f.unpack(sm)[0], sumsq=s_f.unpack(sq)[0],
                                     bits=(s_i.unpack(mn)[0], s_i.unpack(mx)[0], s_i.unpack(sm)[0], s_i.unpack(sq)[0])))
        if n > z["max_items_per_block"]:
            z["max_items_per_block"] = n
        if n > t["items_per_slot"]:
            d.problem("block_holds_more_than_items_per_slot", dsite, "%d records, itemsPerSlot %d, block at %d" % (n, t["items_per_slot"], doff))
        if len(cids) > 1:
            # UCSC fills zoom blocks irrespective of chromosome; containment is then checked on (chrom,base) pairs
            d.note("%s: zoom block at %d holds records of chromosomes %s" % (site, doff, sorted(cids)))
            recs = z["records"][-n:]
            lo2 = min((x["chrom"], x["start"]) for x in recs)
            hi2 = max((x["chrom"], x["end"]) for x in recs)
            if (leaf[0], leaf[1]) > lo2 or (leaf[2], leaf[3]) < hi2:
                d.problem("leaf_span_does_not_contain_items", site + "_index", "leaf (%d,%d)..(%d,%d) records %s..%s block at %d" % (leaf[0], leaf[1], leaf[2], leaf[3], lo2, hi2, doff))
        else:
            _check_leaf_vs_items(d, site + "_index", leaf, cids, lo, hi)
    _check_item_count(d, t, site + "_index", len(z["records"]))
    if z["count_word"]:
        cw = r.u32(z["data_offset"])
        if cw != len(z["records"]):
            d.note("%s: u32 count word before the zoom data says %d, level holds %d records" % (site, cw, len(z["records"])))
    d.note("%s: u32 record count before the first zoom block: %s" % (site, {True: "present", False: "absent", None: "undetermined"}[z["count_word"]]))


def _check_regions(d):
    regs = sorted(d.regions)
    prev = None
    reported = 0
    for (s, e, label) in regs:
        if prev is not None and s < prev[1] and reported < 5:
            a, b = sorted([prev[2], label])
            d.problem("structures_overlap", "%s/%s" % (a, b), "%s [%d,%d) and %s [%d,%d)" % (prev[2], prev[0], prev[1], label, s, e))
            reported += 1
        if prev is None or e > prev[1]:
            prev = (s, e, label)
    # unclaimed bytes: a note (writers pad, reserve zoom header slots, ...)
    pos = 0
    gaps = []
    for (s, e, label) in regs:
        if s > pos:
            gaps.append((pos, s))
        pos = max(pos, e)
    if pos < d.file_len:
        gaps.append((pos, d.file_len))
    if gaps:
        d.note("bytes not claimed by any structure: %s" % (gaps[:8],))
    d.gaps = gaps


# ---------------------------------------------------------------------------------- statistics

def to_f32(x):
    """nearest f32 of a float, as a Python float (inf on overflow)"""
    try:
        return struct.unpack("<f", struct.pack("<f", x))[0]
    except OverflowError:
        return math.inf if x > 0 else -math.inf


def _f32_ord(x):
    """monotone integer image of an f32 value (given as Python float exactly representable in f32)"""
    b = struct.unpack("<I", struct.pack("<f", x))[0]
    return b if b < 0x80000000 else 0x80000000 - b


def f32_close(stored, model, abs_terms, ulps=2, rel=1e-6):
    if math.isnan(model):
        return math.isnan(stored)
    if math.isnan(stored):
        return False
    m32 = to_f32(model)
    if stored == m32:
        return True
    if abs(_f32_ord(stored) - _f32_ord(m32)) <= ulps:
        return True
    if math.isinf(stored) or math.isinf(m32):
        return False  # equal / within-ulps cases were accepted above
    return abs(stored - model) <= rel * abs_terms


def f64_close(stored, model, abs_terms, rel=1e-9):
    if math.isnan(model):
        return math.isnan(stored)
    if math.isnan(stored):
        return False
    if stored == model:
        return True
    if math.isinf(stored) or math.isinf(model):
        return False
    return abs(stored - model) <= rel * abs_terms


def depth_segments(entries):
    """[(start,end,...)] -> disjoint sorted [(start, end, depth)] with depth > 0 (zero-length entries contribute nothing)"""
    ev = {}
    for x in entries:
        s, e = x[0], x[1]
        if e > s:
            ev[s] = ev.get(s, 0) + 1
            ev[e] = ev.get(e, 0) - 1
    out = []
    depth = 0
    prev = None
    for pos in sorted(ev):
        if depth > 0 and pos > prev:
            if out and out[-1][1] == prev and out[-1][2] == depth:
                out[-1] = (out[-1][0], pos, depth)
            else:
                out.append((prev, pos, depth))
        depth += ev[pos]
        prev = pos
    return out


def value_segments(values):
    """bigWig values -> [(start, end, value)] with end > start, sorted by start"""
    return sorted(((x[0], x[1], x[2]) for x in values if x[1] > x[0]), key=lambda t: (t[0], t[1]))


class Stats(object):
    __slots__ = ("bases", "min", "max", "sum", "sumsq", "abs_sum", "abs_sumsq")

    def __init__(self):
        self.bases = 0
        self.min = None
        self.max = None
        self.sum = 0.0
        self.sumsq = 0.0
        self.abs_sum = 0.0
        self.abs_sumsq = 0.0

    def add(self, length, v):
        if length <= 0:
            return
        self.bases += length
        if self.min is None:
            self.min = self.max = v
        else:
            # NaN-propagating comparisons are not needed: a NaN value makes min/max a don't-care (see callers)
            if v < self.min:
                self.min = v
            if v > self.max:
                self.max = v
        t = length * v
        self.sum += t
        self.abs_sum += abs(t)
        t2 = t * v
        self.sumsq += t2
        self.abs_sumsq += abs(t2)


def stats_in(segs, ends, s, e):
    """statistics of disjoint sorted segments [(start,end,v)] clipped to [s,e); ends = [seg end] (sorted, as segs are disjoint)"""
    st = Stats()
    i = bisect.bisect_right(ends, s)
    while i < len(segs) and segs[i][0] < e:
        a, b, v = segs[i]
        st.add(min(b, e) - max(a, s), v)
        i += 1
    return st


def segments_by_chrom(d):
    out = {}
    if d.kind == "bigwig":
        for cid, vs in d.values.items():
            out[cid] = value_segments(vs)
    else:
        for cid, es in d.entries.items():
            out[cid] = [(a, b, float(k)) for (a, b, k) in depth_segments(es)]
    return out


def total_stats(segs_by_chrom):
    st = Stats()
    for cid in sorted(segs_by_chrom):
        for (a, b, v) in segs_by_chrom[cid]:
            st.add(b - a, v)
    return st


def _disjoint(segs):
    return all(segs[i][1] <= segs[i + 1][0] for i in range(len(segs) - 1))


def recompute_stats(d):
    """Compare the stored total summary and every zoom record with statistics recomputed from the decoded records."""
    out = []
    if d.kind is None:
        return out
    segs = segments_by_chrom(d)
    for cid in segs:
        if not _disjoint(segs[cid]):
            # overlapping bigWig values: already a structural problem; the per-base model is undefined
            out.append(("stats_not_recomputed", "overlapping_values", "chromosome id %d" % cid))
            return out
    has_nan = any(math.isnan(v) for ss in segs.values() for (_, _, v) in ss)
    minmax_dont_care = d.has_zero_length or has_nan
    covered = dict((cid, sum(b - a for (a, b, _) in ss)) for cid, ss in segs.items())
    # --- total summary
    ts = d.total_summary
    if ts is not None:
        m = total_stats(segs)
        site = "total_summary"
        if ts["bases"] != m.bases:
            out.append(("total_bases_wrong", site, "stored %d, recomputed %d" % (ts["bases"], m.bases)))
        if m.bases > 0 and not minmax_dont_care:
            if ts["min"] != m.min:
                out.append(("total_min_wrong", site, "stored %r, recomputed %r" % (ts["min"], m.min)))
            if ts["max"] != m.max:
                out.append(("total_max_wrong", site, "stored %r, recomputed %r" % (ts["max"], m.max)))
        if not f64_close(ts["sum"], m.sum, m.abs_sum):
            out.append(("total_sum_wrong", site, "stored %r, recomputed %r" % (ts["sum"], m.sum)))
        if not f64_close(ts["sumsq"], m.sumsq, m.abs_sumsq):
            out.append(("total_sumsq_wrong", site, "stored %r, recomputed %r" % (ts["sumsq"], m.sumsq)))
    # --- zoom levels
    ends = dict((cid, [x[1] for x in ss]) for cid, ss in segs.items())
    # a record may not reach past the chromosome -- or past the data, when the data itself does (reported separately)
    sizes = dict((c[1], c[2]) for c in d.chroms)
    for cid, ss in segs.items():
        if ss and cid in sizes:
            sizes[cid] = max(sizes[cid], max(x[1] for x in ss))
    for li, z in enumerate(d.zooms):
        site = "level%d" % (li + 1)
        seen = set()

        def once(cls, detail):
            if cls not in seen:
                seen.add(cls)
                out.append((cls, site, detail))

        per_chrom = {}
        prev = None
        for rec in z["records"]:
            cid, s, e = rec["chrom"], rec["start"], rec["end"]
            where = "record chromosome id %d [%d,%d)" % (cid, s, e)
            if prev is not None:
                if (cid, s) < (prev["chrom"], prev["start"]):
                    once("zoom_records_not_sorted", "%s follows [%d,%d) of chromosome id %d" % (where, prev["start"], prev["end"], prev["chrom"]))
                elif cid == prev["chrom"] and s < prev["end"]:
                    once("zoom_records_overlap", "%s follows [%d,%d)" % (where, prev["start"], prev["end"]))
            prev = rec
            if e <= s:
                once("zoom_record_empty_span", where)
            if e - s > z["reduction"]:
                once("zoom_record_longer_than_reduction", "%s, reduction %d" % (where, z["reduction"]))
            if cid in sizes and e > sizes[cid]:
                once("zoom_record_beyond_chromosome_end", "%s, chromosome size %d" % (where, sizes[cid]))
            if rec["valid"] == 0:
                once("zoom_record_covers_nothing", where)
            per_chrom[cid] = per_chrom.get(cid, 0) + rec["valid"]
            m = stats_in(segs.get(cid, []), ends.get(cid, []), s, e)
            if rec["valid"] != m.bases:
                once("zoom_bases_wrong", "%s stored %d, recomputed %d" % (where, rec["valid"], m.bases))
            if m.bases > 0:
                if not minmax_dont_care:
                    if rec["min"] != to_f32(m.min):
                        once("zoom_min_wrong", "%s stored %r, recomputed %r" % (where, rec["min"], m.min))
                    if rec["max"] != to_f32(m.max):
                        once("zoom_max_wrong", "%s stored %r, recomputed %r" % (where, rec["max"], m.max))
                if not f32_close(rec["sum"], m.sum, m.abs_sum):
                    once("zoom_sum_wrong", "%s stored %r, recomputed %r" % (where, rec["sum"], m.sum))
                if not f32_close(rec["sumsq"], m.sumsq, m.abs_sumsq):
                    once("zoom_sumsq_wrong", "%s stored %r, recomputed %r" % (where, rec["sumsq"], m.sumsq))
        for cid in sorted(set(per_chrom) | set(covered)):
            if per_chrom.get(cid, 0) != covered.get(cid, 0):
                once("zoom_level_misses_or_double_counts_bases", "chromosome id %d: records count %d bases, data covers %d" % (cid, per_chrom.get(cid, 0), covered.get(cid, 0)))
    return out
