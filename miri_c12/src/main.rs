//! Reduced threaded TempFileBuffer workload for Miri (data races, UB in the AtomicCell seqlock
//! path for the non-lock-free payload, deadlocks) and for ThreadSanitizer.
//! The hook callback here is in *sanitizer mode*: it only yields, it shares no lock or atomic
//! between threads, so it adds no happens-before edge that could hide a race.
use bigtools::utils::tempfilebuffer::{TempFileBuffer, TempFileBufferWriter};
use std::io::{BufWriter, Write};
use std::sync::{Arc, Mutex};

#[derive(Clone, Default)]
struct Sink(Arc<Mutex<Vec<u8>>>);
impl Write for Sink {
    fn write(&mut self, b: &[u8]) -> std::io::Result<usize> {
        self.0.lock().unwrap().extend_from_slice(b);
        Ok(b.len())
    }
    fn flush(&mut self) -> std::io::Result<()> {
        Ok(())
    }
}

fn pb(i: usize) -> u8 {
    (i.wrapping_mul(2654435761) >> 13) as u8 ^ i as u8
}

fn run(inmemory: bool, sizes: &[usize], consumer_spins: usize, producer_spins: usize, len_path: bool) {
    let sink = Sink::default();
    // R = BufWriter<..>, as in bigtools' own use: a payload too wide for a lock-free AtomicCell,
    // so the cell takes crossbeam's seqlock path (an 8-byte payload would take the
    // integer-transmute path instead, which bigtools never uses with a pointer-carrying type)
    let (mut buf, mut writer): (TempFileBuffer<BufWriter<Sink>>, TempFileBufferWriter<BufWriter<Sink>>) = TempFileBuffer::new(inmemory);
    let sizes_v = sizes.to_vec();
    let total: usize = sizes.iter().sum();
    let producer = std::thread::spawn(move || {
        let mut off = 0;
        for s in sizes_v {
            let data: Vec<u8> = (0..s).map(|i| pb(off + i)).collect();
            writer.write_all(&data).unwrap();
            off += s;
            for _ in 0..producer_spins {
                std::thread::yield_now();
            }
        }
        drop(writer);
    });
    for _ in 0..consumer_spins {
        std::thread::yield_now();
    }
    if len_path {
        let l = buf.len().unwrap();
        assert_eq!(l as usize, total, "len() != bytes written");
        let mut dest = BufWriter::new(sink.clone());
        buf.expect_closed_write(&mut dest).unwrap();
        dest.flush().unwrap();
    } else {
        buf.switch(BufWriter::new(sink.clone()));
        let _ = buf.is_real_file_ready();
        let mut dest = buf.await_real_file();
        dest.flush().unwrap();
    }
    producer.join().unwrap();
    let got = sink.0.lock().unwrap().clone();
    assert_eq!(got.len(), total, "destination length");
    for (i, b) in got.iter().enumerate() {
        assert_eq!(*b, pb(i), "byte {} wrong", i);
    }
}

fn main() {
    #[cfg(bigtools_verif)]
    bigtools::verif::install(Box::new(|id, _a, _b| {
        // yield at the hand-off points; no shared state
        if id.starts_with("tfb.") {
            std::thread::yield_now();
        }
    }));
    let args: Vec<String> = std::env::args().collect();
    let with_tempfile = args.iter().any(|a| a == "--tempfile");
    let heavy = args.iter().any(|a| a == "--heavy");
    let mut runs = 0;
    let modes: &[bool] = if with_tempfile { &[true, false] } else { &[true] };
    let size_sets: Vec<Vec<usize>> = if heavy {
        vec![vec![], vec![1], vec![3, 0, 5], vec![64, 1, 1, 200], vec![5000, 5000, 5000, 1, 0, 70000]]
    } else {
        vec![vec![], vec![1], vec![3, 0, 5], vec![16, 1, 1, 40]]
    };
    for &inmemory in modes {
        for sizes in &size_sets {
            for consumer_spins in [0usize, 1, 3, 8] {
                for producer_spins in [0usize, 2] {
                    run(inmemory, sizes, consumer_spins, producer_spins, false);
                    runs += 1;
                }
            }
            run(inmemory, sizes, 2, 1, true);
            runs += 1;
        }
    }
    println!("MIRI_C12_OK runs={}", runs);
}
