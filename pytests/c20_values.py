#!/opt/veriftools/pyvenv/bin/python
"""C20, primary leg: the real `values()` call of the built pybigtools extension against a
per-base numpy oracle.

    python3-vt c20_values.py --seed S --cases N --shard i/n --scratch DIR [--only K] [--from K]

One JSON line per case on stdout:
    {"ev":"begin","case":k}                                  (so a parent can tell which case killed us)
    {"case":k,"desc":{..},"hash":"..","nt":bool,"tags":[..],"counts":{..},
     "viols":[{"class":..,"site":..,"detail":{..}}],"inconclusive":null|"why"}
and a final {"ev":"done"}.

What is demanded (and nothing more -- see properties.jsonl C20 and the docstring of `values`):
  * per base: stored value (bigBed: number of entries overlapping the base), `missing` where there is no
    data, `oob` outside [0, chrom length);
  * N bins, exact path (exact=True, or exact=False when the file has no eligible zoom level), INTEGRAL bin
    width: bins wholly inside the chromosome = mean/min/max over the covered bases of the span, `missing`
    if none is covered; bins wholly outside = `oob`; bins straddling the chromosome boundary may be either
    (the documentation does not say);
  * N bins, any width, any path: every output is `missing`, `oob` (only if the bin touches the outside), or
    lies within [min,max] of the data (exact path: data inside the requested range; zoom path: data inside
    the range widened by the largest reduction level that may have been chosen); NaN only if the
    applicable fill is NaN; bins wholly outside the chromosome are `oob`.
"""
import argparse
import hashlib
import json
import math
import os
import random
import subprocess
import sys
from fractions import Fraction

# Rust code inside the extension print!()s to fd 1 (e.g. write errors): keep the protocol stream clean.
_OUT = os.fdopen(os.dup(1), "w")
os.dup2(2, 1)
os.environ["RUST_BACKTRACE"] = "0"

# VERIF_C20_PYEXT: another build of the extension (used to validate the oracle against a scratch copy)
sys.path.insert(0, os.environ.get("VERIF_C20_PYEXT", "/verif/target/pyext"))
import numpy as np  # noqa: E402
import pybigtools  # noqa: E402

CLI = "/verif/target/repo/release/"
GARBAGE = 12345.678  # prefill of user-supplied output arrays: an unwritten cell is visible


def emit(obj):
    _OUT.write(json.dumps(obj, default=str) + "\n")
    _OUT.flush()


def jf(x):
    """float -> JSON-safe"""
    if x is None:
        return None
    x = float(x)
    if math.isnan(x):
        return "nan"
    if math.isinf(x):
        return "inf" if x > 0 else "-inf"
    return x


def jarr(a, limit=64):
    a = list(a)
    out = [jf(x) for x in a[:limit]]
    if len(a) > limit:
        out.append("... %d more" % (len(a) - limit))
    return out


def same(a, b):
    """bitwise-ish equality with NaN == NaN"""
    a = float(a)
    b = float(b)
    return (math.isnan(a) and math.isnan(b)) or a == b


def f32(x):
    return float(np.float32(x))


# --------------------------------------------------------------------------------------------------
# generators
# --------------------------------------------------------------------------------------------------

VALUE_POOL = [1.0, 2.0, 3.0, -1.0, -2.5, 0.5, 0.0, 10.0, -0.0, 7.25, 100.0, -100.0]


def gen_value(rng, extremes=True):
    r = rng.random()
    if r < 0.55:
        return rng.choice(VALUE_POOL)
    if r < 0.9 or not extremes:
        return f32(rng.uniform(-1000.0, 1000.0))
    if r < 0.94:
        return f32(rng.choice([3.0e38, -3.0e38, 1.0e30, -1.0e30]))
    if r < 0.97:
        return f32(rng.choice([1.0e-40, -1.0e-40, 1.17549435e-38]))  # subnormal / smallest normal
    return f32(rng.uniform(-1.0, 1.0) * 10 ** rng.randint(-6, 6))


def gen_bigwig(rng, L, extremes=True):
    """sorted, non-overlapping, gaps; may touch 0 and L"""
    items = []
    pos = 0 if rng.random() < 0.5 else rng.randint(1, max(1, L // 4))
    style = rng.choice(["dense", "sparse", "mixed", "unit"])
    while pos < L:
        if style == "unit":
            ln = 1
        elif style == "dense":
            ln = rng.randint(1, 6)
        else:
            ln = rng.randint(1, max(2, L // 3))
        end = min(L, pos + ln)
        if end > pos:
            items.append((pos, end, gen_value(rng, extremes)))
        pos = end
        if style == "dense":
            gap = 0 if rng.random() < 0.6 else rng.randint(1, 3)
        elif style == "sparse":
            gap = rng.randint(1, max(2, L // 3))
        else:
            gap = 0 if rng.random() < 0.4 else rng.randint(1, max(2, L // 5))
        pos += gap
        if rng.random() < 0.04:
            break
    if not items:
        items.append((0, 1, 1.0))
    if rng.random() < 0.4 and items[-1][1] < L:
        # make the last value touch the chromosome end
        s = max(items[-1][1], L - rng.randint(1, 5))
        items.append((s, L, gen_value(rng, extremes)))
    return items


def gen_bigbed(rng, L, extremes=True):
    """entries (start,end) with end > start: overlapping, nested, identical, touching 0 / L"""
    n = rng.choice([1, 2, 3, 4, 6, 9, 14])
    ents = []
    for _ in range(n):
        r = rng.random()
        if ents and r < 0.15:
            ents.append(rng.choice(ents))  # identical
        elif ents and r < 0.35:
            a, b = rng.choice(ents)  # nested
            if b - a >= 2:
                s = rng.randint(a, b - 1)
                e = rng.randint(s + 1, b)
                ents.append((s, e))
            else:
                ents.append((a, b))
        elif ents and r < 0.5:
            a, b = rng.choice(ents)  # partial overlap to the right / abutting
            s = rng.randint(a, min(b, L - 1))
            e = min(L, s + rng.randint(1, max(1, L // 3)))
            ents.append((s, e))
        else:
            s = rng.randint(0, L - 1)
            e = min(L, s + rng.randint(1, max(1, L // 2)))
            ents.append((s, e))
    if rng.random() < 0.35:
        ents.append((0, rng.randint(1, L)))
    if rng.random() < 0.35:
        ents.append((rng.randint(0, L - 1), L))
    if rng.random() < 0.05:
        ents.append((0, L))
    ents.sort()
    return ents


MISSING_POOL = [0.0, -1.0, 1.0, 2.5, -7.25, 100.0, -0.0, 1.0e6, -1.0e-3, 0.5]
OOB_POOL = [0.0, -1.0, 9.0, -123.5, 1.0e9, 0.25]


def gen_fill(rng, pool, nan_p):
    r = rng.random()
    if r < nan_p:
        return float("nan")
    if r < nan_p + 0.6:
        return rng.choice(pool)
    return round(rng.uniform(-50.0, 50.0), 3)


def boundary_points(items, L):
    pts = {0, L}
    for it in items:
        for p in (it[0], it[1]):
            pts.update((p - 1, p, p + 1))
    return sorted(pts)


def gen_range(rng, items, L):
    """-> (start_arg, end_arg, kind); None means 'use the default'"""
    r = rng.random()
    pts = boundary_points(items, L)

    def pick(lo, hi):
        c = [p for p in pts if lo <= p <= hi]
        if c and rng.random() < 0.6:
            return rng.choice(c)
        return rng.randint(lo, hi)

    if r < 0.06:
        return None, None, "defaults"
    if r < 0.10:
        return pick(0, L - 1), None, "end_default"
    if r < 0.14:
        return None, pick(1, L), "start_default"
    if r < 0.16:
        return -rng.randint(1, 25), None, "end_default_below0"
    if r < 0.18:
        return None, L + rng.randint(1, 25), "start_default_pastend"
    if r < 0.50:
        s = pick(0, L - 1)
        e = pick(s + 1, L)
        return s, e, "inside"
    if r < 0.65:
        s = -rng.randint(1, 25)
        e = pick(1, L)
        return s, e, "below0"
    if r < 0.80:
        s = pick(0, L - 1)
        e = L + rng.randint(1, 25)
        return s, e, "pastend"
    if r < 0.90:
        return -rng.randint(1, 25), L + rng.randint(1, 25), "both"
    if r < 0.925:
        e = -rng.randint(0, 10)
        return e - rng.randint(1, 12), e, "entirely_below0"
    if r < 0.95:
        s = L + rng.randint(0, 10)
        return s, s + rng.randint(1, 12), "entirely_pastend"
    if r < 0.97:
        s = pick(0, L)
        return s, s, "empty"
    s = pick(0, L - 1)
    return s, min(L, s + rng.randint(1, 3)), "tiny"


def divisors(n):
    return [d for d in range(1, n + 1) if n % d == 0]


def gen_bins(rng, n):
    """n = e - s >= 1 -> bins in 1..n or None"""
    r = rng.random()
    if r < 0.30:
        return None
    if r < 0.62:
        return rng.choice(divisors(n))  # integral width
    if r < 0.70:
        return n
    if r < 0.76:
        return 1
    if r < 0.86:
        return rng.randint(1, min(n, 4))
    return rng.randint(1, n)


# --------------------------------------------------------------------------------------------------
# writing the file
# --------------------------------------------------------------------------------------------------


def write_file(kind, writer, path, chroms, layout, zooms, scratch, tag):
    """layout: {chrom: items}. Returns None or an 'inconclusive' reason."""
    names = sorted(chroms)
    if writer == "py":
        vals = []
        for c in names:
            for it in layout[c]:
                if kind == "bigwig":
                    vals.append((c, int(it[0]), int(it[1]), float(it[2])))
                else:
                    vals.append((c, int(it[0]), int(it[1]), "n%d" % len(vals)))
        try:
            w = pybigtools.open(path, "w")
            w.write(dict(chroms), vals)
        except BaseException as e:  # noqa
            if isinstance(e, KeyboardInterrupt):
                raise
            return "writer failed: %s: %s" % (type(e).__name__, str(e)[:200])
        return None
    sizes = os.path.join(scratch, tag + ".sizes")
    src = os.path.join(scratch, tag + (".bedGraph" if kind == "bigwig" else ".bed"))
    with open(sizes, "w") as f:
        for c in names:
            f.write("%s\t%d\n" % (c, chroms[c]))
    with open(src, "w") as f:
        i = 0
        for c in names:
            for it in layout[c]:
                if kind == "bigwig":
                    f.write("%s\t%d\t%d\t%s\n" % (c, it[0], it[1], repr(float(it[2]))))
                else:
                    f.write("%s\t%d\t%d\tn%d\n" % (c, it[0], it[1], i))
                i += 1
    exe = CLI + ("bedgraphtobigwig" if kind == "bigwig" else "bedtobigbed")
    cmd = [exe, src, sizes, path, "-t", "1"]
    if zooms:
        cmd += ["--zooms"] + [str(z) for z in zooms]
    try:
        p = subprocess.run(cmd, stdout=subprocess.PIPE, stderr=subprocess.PIPE, text=True, timeout=60)
    except subprocess.TimeoutExpired:
        return "cli writer timed out"
    finally:
        pass
    for x in (sizes, src):
        try:
            os.unlink(x)
        except OSError:
            pass
    if p.returncode != 0:
        return "cli writer rc=%s: %s" % (p.returncode, (p.stderr or "")[-200:])
    return None


# --------------------------------------------------------------------------------------------------
# oracle
# --------------------------------------------------------------------------------------------------


class Model:
    def __init__(self, kind, L, items):
        self.kind = kind
        self.L = L
        self.items = items
        self.val = np.zeros(L, dtype=np.float64)
        self.cov = np.zeros(L, dtype=bool)
        if kind == "bigwig":
            for (a, b, v) in items:
                self.val[a:b] = np.float64(np.float32(v))
                self.cov[a:b] = True
        else:
            for (a, b) in items:
                self.val[a:b] += 1.0
                self.cov[a:b] = True

    def per_base(self, s, e, missing, oob):
        out = np.empty(e - s, dtype=np.float64)
        for i, p in enumerate(range(s, e)):
            if p < 0 or p >= self.L:
                out[i] = oob
            elif self.cov[p]:
                out[i] = self.val[p]
            else:
                out[i] = missing
        return out

    def data_range(self, lo, hi):
        lo = max(lo, 0)
        hi = min(hi, self.L)
        if hi <= lo:
            return None
        m = self.cov[lo:hi]
        if not m.any():
            return None
        v = self.val[lo:hi][m]
        return float(v.min()), float(v.max())

    def stat(self, lo, hi, summary):
        """statistic over the covered bases of [lo,hi) (inside the chromosome); None if none covered.
        Returns (value, n_covered, n_bases)."""
        lo = max(lo, 0)
        hi = min(hi, self.L)
        if hi <= lo:
            return None, 0, 0
        m = self.cov[lo:hi]
        n = int(m.sum())
        if n == 0:
            return None, 0, hi - lo
        v = self.val[lo:hi][m]
        if summary == "mean":
            return math.fsum(v.tolist()) / n, n, hi - lo
        if summary == "min":
            return float(v.min()), n, hi - lo
        return float(v.max()), n, hi - lo


def msg_kind(msg):
    if "index out of bounds" in msg:
        return "index_oob"
    if msg.startswith("assertion `left == right` failed"):
        return "assert_eq"
    if msg.startswith("assertion failed"):
        return "assert"
    if "slice index" in msg or "range end index" in msg or "range start index" in msg:
        return "slice_index"
    if "capacity overflow" in msg:
        return "capacity_overflow"
    if "overflow" in msg:
        return "arith_overflow"
    return "other"


def panic_site(kind, routine, rkind, msg, s, e, L, bins, items, zspans):
    """Deterministic, short discriminating features of a call that ended in a Rust panic. The panic message
    carries no function name; the routine follows from the arguments (per base / exact bins / zoom bins)."""
    mk = msg_kind(msg)
    if rkind in ("entirely_below0", "entirely_pastend"):
        return "values:range_%s:%s" % (rkind, mk)
    qs, qe = max(s, 0), min(e, L)
    spans = zspans if zspans is not None else [(it[0], it[1]) for it in items]
    noun = "record" if zspans is not None else ("entry" if kind == "bigbed" else "value")
    overl = [(a, b) for (a, b) in spans if a < qe and b > qs]
    ends_after = any(a >= s and b > e for (a, b) in overl)  # (an entry that also starts before is dropped silently)
    starts_before = any(a < s for (a, b) in overl)
    abut_end = any(a == qe for (a, b) in spans)
    width = None if bins is None else ("integral_width" if (e - s) % bins == 0 else "nonintegral_width")
    if mk == "assert_eq" and bins is not None and e > L:
        top = "intervals_to_array" if kind == "bigwig" else "entries_to_array"
        return "%s:oob_fill:%s:%s" % (top, width, mk)
    if routine == "to_entry_array":
        if ends_after:
            f = "entry_ends_after_range"
        elif abut_end:
            f = "entry_starts_at_range_end"
        elif starts_before:
            f = "entry_starts_before_range"
        else:
            f = "no_feature"
        return "%s:%s:%s" % (routine, f, mk)
    if bins is not None:
        if abut_end and mk == "index_oob":
            return "%s:%s_starts_at_range_end:%s" % (routine, noun, mk)
        return "%s:%s:%s" % (routine, width, mk)
    return "%s:%s" % (routine, mk)


def routine_of(kind, bins, zoom_used):
    base = "to_array" if kind == "bigwig" else "to_entry_array"
    if bins is None:
        return base
    return base + ("_zoom" if zoom_used else "_bins")


def close(a, b, scale):
    if same(a, b):
        return True
    if math.isnan(a) or math.isnan(b) or math.isinf(a) or math.isinf(b):
        return False
    return abs(a - b) <= 1e-9 * max(abs(a), abs(b), scale)


OOB_PROBE = 31337.125


def check_call(model, call, got, zooms_in_file, recall=None):
    """-> list of (class, site, detail-extras). `recall(oob)` repeats the call with another finite `oob`
    (used only to tell a NaN that is the out-of-bounds fill from a NaN that was computed)."""
    kind = model.kind
    L = model.L
    s, e = call["s"], call["e"]
    bins = call["bins"]
    summary = call["summary"]
    missing = call["missing"]
    oob = call["oob"]
    viols = []
    n_expected = (e - s) if bins is None else bins
    if got.shape != (n_expected,):
        return [("shape_wrong", kind, dict(got_shape=list(got.shape), expected_len=n_expected))]
    if got.dtype != np.float64:
        return [("dtype_wrong", kind, dict(dtype=str(got.dtype)))]

    if bins is None:
        exp = model.per_base(s, e, missing, oob)
        bad = [i for i in range(e - s) if not same(got[i], exp[i])]
        if not bad:
            return []
        bad_out = [i for i in bad if (s + i) < 0 or (s + i) >= L]
        bad_in = [i for i in bad if 0 <= (s + i) < L]
        if bad_out:
            viols.append(("oob_fill_wrong", "%s:per_base:outside_not_oob" % kind,
                          dict(first_bad_index=bad_out[0], n_bad=len(bad_out), got=jarr(got), expected=jarr(exp))))
        if bad_in:
            site = kind
            if kind == "bigbed":
                qs, qe = max(s, 0), min(e, L)
                before = any(a < s and b > qs and a < qe for (a, b) in model.items)
                after = any(b > e and b > qs and a < qe for (a, b) in model.items)
                if before:
                    site += ":entry_starts_before_range"
                elif after:
                    site += ":entry_ends_after_range"
            viols.append(("per_base_wrong", site,
                          dict(first_bad_index=bad_in[0], position=s + bad_in[0], n_bad=len(bad_in), got=jarr(got), expected=jarr(exp))))
        return viols

    # ---- bins ----
    n = e - s
    integral = (n % bins == 0)
    wtag = "integral_width" if integral else "nonintegral_width"
    zoom_used = call["zoom_used"]
    path = "zoom" if zoom_used else "exact"
    W = Fraction(n, bins)
    nan_missing = math.isnan(missing)
    nan_oob = math.isnan(oob)
    feat = ""
    if kind == "bigbed" and (not nan_missing) and missing > 0:
        feat = ":missing_positive"
    if zoom_used:
        ext = int(n // (2 * bins))
        rng_ = model.data_range(s - ext, e + ext)
    else:
        rng_ = model.data_range(s, e)
    scale = max(abs(rng_[0]), abs(rng_[1])) if rng_ else 0.0
    seen = set()
    cache = {}

    def add(cls, site, i, extra):
        if (cls, site) in seen:
            return
        seen.add((cls, site))
        d = dict(bin=i, bin_span=[float(s + i * W), float(s + (i + 1) * W)], got_bin=jf(got[i]), got=jarr(got))
        d.update(extra)
        viols.append((cls, site, d))

    for i in range(bins):
        g = float(got[i])
        lo_f = s + i * W
        hi_f = s + (i + 1) * W
        wholly_out = (hi_f <= 0) or (lo_f >= L)
        wholly_in = (lo_f >= 0) and (hi_f <= L)
        if wholly_out:
            if not same(g, oob):
                add("oob_fill_wrong", "%s:bins:%s:outside_bin_not_oob" % (kind, wtag), i, dict(expected=jf(oob)))
            continue
        # allowed NaN?
        nan_ok = nan_missing or (nan_oob and not wholly_in)
        if math.isnan(g) and not nan_ok:
            if nan_oob and recall is not None:
                # is this NaN the (NaN) oob fill written into a bin that lies wholly inside the chromosome?
                if "probe" not in cache:
                    try:
                        cache["probe"] = recall(OOB_PROBE)
                    except BaseException as ex:  # noqa
                        if isinstance(ex, KeyboardInterrupt):
                            raise
                        cache["probe"] = None
                pr = cache["probe"]
                if pr is not None and len(pr) == bins and float(pr[i]) == OOB_PROBE:
                    add("oob_fill_wrong", "%s:bins:%s:inside_bin_is_oob" % (kind, wtag), i,
                        dict(note="the bin lies wholly inside the chromosome but holds the out-of-bounds fill (confirmed by repeating the call with oob=%r)" % OOB_PROBE))
                    continue
            add("nan_in_bins", "%s:%s:%s" % (kind, wtag, path), i, dict(note="NaN although missing is finite and the bin does not touch the out-of-bounds region" if wholly_in else "NaN although both fills are finite"))
            continue
        if integral and not zoom_used:
            w = n // bins
            lo = s + i * w
            hi = lo + w
            st, ncov, nb = model.stat(lo, hi, summary)
            expv = missing if st is None else st
            ok = close(g, expv, scale) if summary == "mean" else same(g, expv)
            if not ok and not wholly_in and same(g, oob):
                ok = True  # straddling bin: documentation is silent, `oob` accepted
            if ok:
                continue
            f2 = feat
            if not f2 and kind == "bigbed" and summary == "min" and 0 < ncov < nb:
                f2 = ":partially_covered_bin"
            if wholly_in and same(g, oob) and not same(g, missing) and not f2:
                add("oob_fill_wrong", "%s:bins:%s:inside_bin_is_oob" % (kind, wtag), i, dict(expected=jf(expv)))
                continue
            add("bin_value_wrong", "%s:%s:%s%s" % (kind, wtag, summary, f2), i,
                dict(expected=jf(expv), covered_bases=ncov, bases_in_bin=nb, straddles_boundary=not wholly_in))
            continue
        # weak bound
        if same(g, missing):
            continue
        if not wholly_in and same(g, oob):
            continue
        if wholly_in and same(g, oob) and not (rng_ is not None and rng_[0] <= g <= rng_[1]):
            add("oob_fill_wrong", "%s:bins:%s:inside_bin_is_oob" % (kind, wtag), i,
                dict(note="the bin lies wholly inside the chromosome but holds the out-of-bounds fill"))
            continue
        if rng_ is not None and not math.isnan(g):
            # zoom records carry their sum as f32: allow for that on the zoom path
            tol = (1e-4 if zoom_used else 1e-9) * scale
            if rng_[0] - tol <= g <= rng_[1] + tol:
                continue
        add("bin_out_of_range", "%s:%s:%s:%s%s" % (kind, wtag, path, summary, feat), i,
            dict(data_min_max=[jf(rng_[0]), jf(rng_[1])] if rng_ else None, note="output is neither `missing`, nor `oob`, nor within [min,max] of the data"))
    return viols


# --------------------------------------------------------------------------------------------------
# one case
# --------------------------------------------------------------------------------------------------


def run_case(seed, k, scratch, verbose=False):
    rng = random.Random("c20:%d:%d" % (seed, k))
    kind = "bigwig" if rng.random() < 0.5 else "bigbed"
    L = rng.choice([30, 31, 32, 37, 48, 50, 64, 100, 128, 199, 200]) if rng.random() < 0.5 else rng.randint(30, 200)
    other = rng.choice(["chr0", "chr2", "chrA", "chr10"])  # sorts before or after chr1 -> main id is 0 or 1
    L2 = rng.randint(30, 200)
    chroms = {"chr1": L, other: L2}
    gen = gen_bigwig if kind == "bigwig" else gen_bigbed
    writer = "py" if rng.random() < 0.45 else "cli"
    zooms = []
    if writer == "cli" and rng.random() < 0.8:
        zooms = rng.choice([[2], [3], [2, 5, 10], [4, 16], [5], [10, 40], [2, 4, 8, 16, 32], [7, 21]])
    # zoom summaries are stored as f32 in the file: keep magnitudes moderate there so that f32 overflow /
    # cancellation in the *file* cannot be mistaken for a defect of the array routines
    layout = {"chr1": gen(rng, L, not zooms), other: gen(rng, L2, not zooms)}
    tag = "c%d_%d_%d" % (os.getpid(), seed, k)
    path = os.path.join(scratch, tag + (".bw" if kind == "bigwig" else ".bb"))
    desc = dict(type=kind, chroms=chroms, writer=writer, zooms_requested=zooms,
                items={c: [list(x) for x in layout[c]] for c in layout})
    counts = {"values_calls": 0}
    tags = [kind, "writer:" + writer]
    result = dict(case=k, desc=desc, hash="", nt=False, tags=tags, counts=counts, viols=[], inconclusive=None)

    def bump(name, by=1):
        counts[name] = counts.get(name, 0) + by

    try:
        why = write_file(kind, writer, path, chroms, layout, zooms, scratch, tag)
        if why:
            result["inconclusive"] = why
            result["hash"] = hashlib.sha1(json.dumps(desc, sort_keys=True).encode()).hexdigest()[:24]
            return result
        try:
            b = pybigtools.open(path)
            file_zooms = list(b.zooms())
            # the writer/reader round trip is C01/C02's business: if the file does not hold the layout,
            # nothing can be said about values()
            for c in chroms:
                recs = [tuple(r[:3]) if kind == "bigwig" else tuple(r[:2]) for r in b.records(c)]
                want = [(a, bb, f32(v)) for (a, bb, v) in layout[c]] if kind == "bigwig" else [tuple(x) for x in layout[c]]
                if kind == "bigwig":
                    # the writer may merge/split equal neighbours: compare per base
                    m1 = Model(kind, chroms[c], recs)
                    m2 = Model(kind, chroms[c], want)
                    okrt = np.array_equal(m1.cov, m2.cov) and np.array_equal(m1.val[m1.cov], m2.val[m2.cov])
                else:
                    okrt = sorted(recs) == sorted(want)
                if not okrt:
                    result["inconclusive"] = "writer/reader round trip does not reproduce the layout on %s (C01/C02 territory)" % c
                    break
            if dict(b.chroms()) != chroms and not result["inconclusive"]:
                result["inconclusive"] = "chroms() differs from the layout"
        except BaseException as ex:  # noqa
            if isinstance(ex, KeyboardInterrupt):
                raise
            result["inconclusive"] = "cannot reopen/read back the file: %s: %s" % (type(ex).__name__, str(ex)[:200])
        if result["inconclusive"]:
            result["hash"] = hashlib.sha1(json.dumps(desc, sort_keys=True).encode()).hexdigest()[:24]
            return result
        desc["zooms_in_file"] = file_zooms
        models = {c: Model(kind, chroms[c], layout[c]) for c in chroms}
        extreme = {c: bool(kind == "bigwig" and any(abs(it[2]) >= 1e29 for it in layout[c])) for c in chroms}
        ncalls = rng.randint(10, 18)
        calls = []
        zcache = {}

        def zoom_spans(chrom, level):
            """(start,end) of every zoom record of that level on the chromosome (only used to name the
            discriminating feature of a failing call)"""
            key = (chrom, level)
            if key not in zcache:
                try:
                    zcache[key] = [(int(r[0]), int(r[1])) for r in pybigtools.open(path).zoom_records(level, chrom)]
                except BaseException:  # noqa
                    zcache[key] = []
            return zcache[key]

        seen_sig = set()
        for ci in range(ncalls):
            chrom = "chr1" if rng.random() < 0.8 else other
            model = models[chrom]
            Lc = chroms[chrom]
            sa, ea, rkind = gen_range(rng, layout[chrom], Lc)
            s = 0 if sa is None else sa
            e = Lc if ea is None else ea
            n = e - s
            bins = gen_bins(rng, n) if n >= 1 else None
            summary = rng.choice(["mean", "min", "max"])
            exact = True
            if bins is not None and rng.random() < 0.3:
                exact = False
            elif bins is None and rng.random() < 0.2:
                exact = False  # irrelevant without bins; exercised anyway
            missing = gen_fill(rng, MISSING_POOL, 0.08)
            oob_given = rng.random() < 0.75
            oob = gen_fill(rng, OOB_POOL, 0.25) if oob_given else float("nan")
            arr_mode = None
            r = rng.random()
            if r < 0.18:
                arr_mode = "plain"
            elif r < 0.24:
                arr_mode = "view"
            elif r < 0.28:
                arr_mode = "strided"
            zoom_used = False
            zoom_level = None
            if bins is not None and not exact:
                # the documented choice "closest available zoom level": replicate which levels are eligible
                mz = int(np.float32(n) / np.float32(bins * 2))
                el = [z for z in file_zooms if z <= mz]
                if el:
                    zoom_used = True
                    zoom_level = max(el)
            call = dict(chrom=chrom, start=sa, end=ea, s=s, e=e, range_kind=rkind, bins=bins, summary=summary, exact=exact,
                        missing=missing, oob=oob, oob_given=oob_given, arr=arr_mode, zoom_used=zoom_used, zoom_level=zoom_level)
            calls.append(call)
            kwargs = dict(summary=summary, exact=exact, missing=missing)
            if bins is not None:
                kwargs["bins"] = bins
            if oob_given:
                kwargs["oob"] = oob
            nout = n if bins is None else bins
            backing = None
            view = None
            if arr_mode == "plain":
                view = backing = np.full(nout, GARBAGE, dtype=np.float64)
            elif arr_mode == "view":
                backing = np.full(nout + 7, GARBAGE, dtype=np.float64)
                view = backing[3:3 + nout]
            elif arr_mode == "strided":
                backing = np.full(2 * nout + 1, GARBAGE, dtype=np.float64)
                view = backing[1:1 + 2 * nout:2]
            if view is not None:
                kwargs["arr"] = view
            args = [chrom]
            if sa is not None or ea is not None:
                args.append(sa)
            if ea is not None:
                args.append(ea)
            bump("values_calls")
            bump("calls_" + ("per_base" if bins is None else ("bins_zoom" if zoom_used else ("bins_integral" if n % bins == 0 else "bins_nonintegral"))))
            if s < 0 or e > Lc:
                bump("calls_touching_oob")
            if arr_mode:
                bump("calls_with_arr")
            routine = routine_of(kind, bins, zoom_used)
            call_repr = "values(%s)" % ", ".join([repr(a) for a in args] + ["%s=%s" % (kk, ("<arr:%s>" % arr_mode) if kk == "arr" else repr(vv)) for kk, vv in kwargs.items()])

            def detail(extra):
                d = dict(call=call_repr, chrom_length=Lc, chrom_id_order=sorted(chroms).index(chrom), routine=routine,
                         items_on_chrom=[list(x) for x in layout[chrom][:40]], writer=writer, zooms_in_file=file_zooms)
                d.update(extra)
                return d

            try:
                got = b.values(*args, **kwargs)
            except BaseException as ex:  # noqa
                if isinstance(ex, (KeyboardInterrupt, MemoryError)):
                    raise
                tn = type(ex).__name__
                msg = str(ex)[:300]
                if tn == "PanicException":
                    bump("panics")
                    site = panic_site(kind, routine, rkind, msg, s, e, Lc, bins, layout[chrom], zoom_spans(chrom, zoom_level) if zoom_used else None)
                    key = ("panic", site)
                    if key not in seen_sig:
                        seen_sig.add(key)
                        result["viols"].append({"class": "panic", "site": site, "detail": detail(dict(message=msg))})
                else:
                    site = "%s:%s:%s" % (kind, tn, rkind)
                    key = ("unexpected_exception", site)
                    if key not in seen_sig:
                        seen_sig.add(key)
                        result["viols"].append({"class": "unexpected_exception", "site": site, "detail": detail(dict(message=msg))})
                # a panic may leave the reader in a poisoned state: reopen
                try:
                    b = pybigtools.open(path)
                except BaseException:  # noqa
                    result["inconclusive"] = "cannot reopen after exception"
                    break
                continue
            vs = []
            if not isinstance(got, np.ndarray):
                vs.append(("return_type_wrong", kind, dict(type=type(got).__name__)))
            else:
                if view is not None:
                    if got is not view:
                        # documented: "the values will be written to this array" -- content is what matters
                        if not (got.shape == view.shape and all(same(x, y) for x, y in zip(got.tolist(), view.tolist()))):
                            vs.append(("arr_not_written", "%s:%s" % (kind, arr_mode), dict(returned=jarr(got), passed=jarr(view))))
                    # nothing outside the view may be touched
                    mask = np.ones(backing.shape, dtype=bool)
                    if arr_mode == "view":
                        mask[3:3 + nout] = False
                    elif arr_mode == "strided":
                        mask[1:1 + 2 * nout:2] = False
                    else:
                        mask[:] = False
                    if not np.all(backing[mask] == GARBAGE):
                        vs.append(("arr_wrote_outside_view", "%s:%s" % (kind, arr_mode), dict(backing=jarr(backing))))
                    got = np.array(view, dtype=np.float64)
                if zoom_used and extreme[chrom]:
                    # zoom summaries are f32 in the file: sums of +-3e38 overflow there, nothing to hold the
                    # routine to (the call itself still had to return without a panic)
                    bump("zoom_calls_unchecked_extreme_values")
                else:
                    def recall(oob2, _args=tuple(args), _kw=dict(kwargs)):
                        kw = dict(_kw)
                        kw.pop("arr", None)
                        kw["oob"] = oob2
                        return pybigtools.open(path).values(*_args, **kw)

                    vs += check_call(model, call, got, file_zooms, recall)
            for (cls, site, extra) in vs:
                key = (cls, site)
                if key in seen_sig:
                    continue
                seen_sig.add(key)
                result["viols"].append({"class": cls, "site": site, "detail": detail(extra)})
        desc["calls"] = [dict((kk, (jf(vv) if isinstance(vv, float) else vv)) for kk, vv in c.items() if kk not in ("s", "e", "oob_given")) for c in calls]
        result["nt"] = len(layout["chr1"]) >= 2 and any(c["bins"] is not None for c in calls)
        result["hash"] = hashlib.sha1(json.dumps(desc, sort_keys=True, default=str).encode()).hexdigest()[:24]
        return result
    finally:
        try:
            os.unlink(path)
        except OSError:
            pass


def main():
    ap = argparse.ArgumentParser()
    ap.add_argument("--seed", type=int, default=1)
    ap.add_argument("--cases", type=int, default=100)
    ap.add_argument("--shard", default="0/1")
    ap.add_argument("--scratch", default="/verif/.work/c20_manual")
    ap.add_argument("--only", type=int, default=None)
    ap.add_argument("--from", dest="from_", type=int, default=0)
    a = ap.parse_args()
    created = not os.path.isdir(a.scratch)
    os.makedirs(a.scratch, exist_ok=True)
    si, sn = [int(x) for x in a.shard.split("/")]
    if a.only is not None:
        ks = [a.only]
    else:
        ks = [k for k in range(a.cases) if k % sn == si and k >= a.from_]
    # self-test hooks of the driver (lib/c20.py): die / hang on one case as a Rust abort / a stuck call would
    abort_at = os.environ.get("VERIF_C20_SELFTEST_ABORT")
    hang_at = os.environ.get("VERIF_C20_SELFTEST_HANG")
    for k in ks:
        emit({"ev": "begin", "case": k})
        if abort_at is not None and int(abort_at) == k:
            os.abort()
        if hang_at is not None and int(hang_at) == k:
            import time
            time.sleep(100000)
        emit(run_case(a.seed, k, a.scratch))
    emit({"ev": "done"})
    if created:
        try:
            os.rmdir(a.scratch)  # only if empty: every case removes its own files
        except OSError:
            pass


if __name__ == "__main__":
    main()
