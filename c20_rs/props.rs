// C20, secondary leg: the six private array routines of pybigtools called directly.
//
// This file is include!()-ed into `mod verif_c20` of /repo/pybigtools/src/lib.rs (cfg(all(test,
// bigtools_verif)), path from the env var BIGTOOLS_VERIF_C20), after `use super::*;`.
//
// Inputs are shaped like what intervals_to_array / entries_to_array pass:
//   * bigWig values: sorted, non-overlapping, clipped to [max(start,0), min(end,len));
//   * bigBed entries: sorted by start, UNclipped, the ones overlapping the clipped range -- and, in the
//     `abut` sub-mode, also entries that merely touch it (entry.start == range end or entry.end == range
//     start), which the bigBed/zoom readers do return (C04 declares that zone "may");
//   * zoom records: non-overlapping, unclipped, statistics of the covered bases of their span, the ones
//     overlapping the clipped range (same `abut` sub-mode). `ZoomRecord.chrom` is pub(crate) in bigtools and
//     there is no public constructor, but the struct is Copy and every other field is pub: a template
//     record is read from a bigWig/bigBed in /repo's test resources and its pub fields are overwritten.
//
// Oracle: naive per-base model (Vec<Option<f64>>), same rules as pytests/c20_values.py. The routines know
// nothing about `oob`: positions outside the chromosome simply have no data (=> `missing`).
//
// Every test prints lines `C20RS {json}` and never fails on a violation: a panic inside a routine is caught
// and reported as class "panic".
//
// env: VERIF_SEED (default 1), VERIF_C20_CASES (cases per routine, default 4000).

use std::panic::{catch_unwind, AssertUnwindSafe};
use std::sync::atomic::{AtomicBool, Ordering};

use numpy::ndarray::Array1;

static IN_ROUTINE: AtomicBool = AtomicBool::new(false);

fn quiet_panics() {
    let prev = std::panic::take_hook();
    std::panic::set_hook(Box::new(move |info| {
        if !IN_ROUTINE.load(Ordering::SeqCst) {
            prev(info);
        }
    }));
}

struct Rng(u64);
impl Rng {
    fn new(seed: u64, stream: u64) -> Rng {
        let mut s = seed
            .wrapping_mul(0x9E3779B97F4A7C15)
            .wrapping_add(stream.wrapping_mul(0xD1B54A32D192ED03))
            ^ 0x2545F4914F6CDD1D;
        if s == 0 {
            s = 0x1234_5678_9ABC_DEF1;
        }
        let mut r = Rng(s);
        for _ in 0..8 {
            r.next();
        }
        r
    }
    fn next(&mut self) -> u64 {
        // xorshift64*
        let mut x = self.0;
        x ^= x >> 12;
        x ^= x << 25;
        x ^= x >> 27;
        self.0 = x;
        x.wrapping_mul(0x2545F4914F6CDD1D)
    }
    fn below(&mut self, n: u64) -> u64 {
        if n == 0 {
            0
        } else {
            (self.next() >> 11) % n
        }
    }
    /// inclusive
    fn range(&mut self, lo: i64, hi: i64) -> i64 {
        if hi <= lo {
            lo
        } else {
            lo + self.below((hi - lo + 1) as u64) as i64
        }
    }
    fn unit(&mut self) -> f64 {
        (self.next() >> 11) as f64 / (1u64 << 53) as f64
    }
    fn chance(&mut self, p: f64) -> bool {
        self.unit() < p
    }
}

fn env_u64(name: &str, default: u64) -> u64 {
    std::env::var(name)
        .ok()
        .and_then(|v| v.trim().parse::<u64>().ok())
        .unwrap_or(default)
}

fn fnv(h: &mut u64, x: u64) {
    for b in x.to_le_bytes() {
        *h ^= b as u64;
        *h = h.wrapping_mul(0x100000001b3);
    }
}

fn jstr(s: &str) -> String {
    let mut o = String::with_capacity(s.len() + 2);
    o.push('"');
    for c in s.chars() {
        match c {
            '"' => o.push_str("\\\""),
            '\\' => o.push_str("\\\\"),
            '\n' => o.push_str("\\n"),
            '\r' => o.push_str("\\r"),
            '\t' => o.push_str("\\t"),
            c if (c as u32) < 0x20 => o.push_str(&format!("\\u{:04x}", c as u32)),
            c => o.push(c),
        }
    }
    o.push('"');
    o
}

struct Viol {
    class: &'static str,
    site: String,
    detail: String,
    count: u64,
}

struct Batch {
    routine: &'static str,
    batch: u64,
    cases: u64,
    calls: u64,
    nontrivial: u64,
    hash: u64,
    viols: Vec<Viol>,
}

impl Batch {
    fn new(routine: &'static str, batch: u64) -> Batch {
        Batch {
            routine,
            batch,
            cases: 0,
            calls: 0,
            nontrivial: 0,
            hash: 0xcbf29ce484222325,
            viols: vec![],
        }
    }
    fn add(&mut self, class: &'static str, site: String, detail: String) {
        for v in self.viols.iter_mut() {
            if v.class == class && v.site == site {
                v.count += 1;
                return;
            }
        }
        let mut detail = detail;
        if detail.len() > 1500 {
            detail.truncate(1500);
            detail.push_str("...");
        }
        self.viols.push(Viol {
            class,
            site,
            detail,
            count: 1,
        });
    }
    fn print(&self, seed: u64) {
        let mut s = format!(
            "C20RS {{\"routine\":{},\"batch\":{},\"seed\":{},\"cases\":{},\"calls\":{},\"nontrivial\":{},\"hash\":\"{:016x}\",\"viols\":[",
            jstr(self.routine),
            self.batch,
            seed,
            self.cases,
            self.calls,
            self.nontrivial,
            self.hash
        );
        for (i, v) in self.viols.iter().enumerate() {
            if i > 0 {
                s.push(',');
            }
            s.push_str(&format!(
                "{{\"class\":{},\"site\":{},\"count\":{},\"detail\":{}}}",
                jstr(v.class),
                jstr(&v.site),
                v.count,
                jstr(&v.detail)
            ));
        }
        s.push_str("]}");
        // libtest prints "test name ... " without a newline before the test's own output
        println!("\n{}", s);
    }
}

// ------------------------------------------------------------------------------------------------
// layouts and the per-base model
// ------------------------------------------------------------------------------------------------

const VALUE_POOL: [f32; 12] = [
    1.0, 2.0, 3.0, -1.0, -2.5, 0.5, 0.0, 10.0, -0.0, 7.25, 100.0, -100.0,
];

fn gen_value(rng: &mut Rng) -> f32 {
    let r = rng.unit();
    if r < 0.55 {
        VALUE_POOL[rng.below(VALUE_POOL.len() as u64) as usize]
    } else if r < 0.92 {
        ((rng.unit() * 2000.0) - 1000.0) as f32
    } else if r < 0.96 {
        [3.0e38f32, -3.0e38, 1.0e30, -1.0e30][rng.below(4) as usize]
    } else {
        [1.0e-40f32, -1.0e-40, 1.17549435e-38][rng.below(3) as usize]
    }
}

fn gen_bigwig(rng: &mut Rng, len: i64) -> Vec<(i64, i64, f32)> {
    let mut items = vec![];
    let mut pos = if rng.chance(0.5) {
        0
    } else {
        rng.range(1, (len / 4).max(1))
    };
    let style = rng.below(4);
    while pos < len {
        let ln = match style {
            0 => 1,
            1 => rng.range(1, 6),
            _ => rng.range(1, (len / 3).max(2)),
        };
        let end = (pos + ln).min(len);
        if end > pos {
            items.push((pos, end, gen_value(rng)));
        }
        pos = end;
        let gap = match style {
            1 => {
                if rng.chance(0.6) {
                    0
                } else {
                    rng.range(1, 3)
                }
            }
            2 => rng.range(1, (len / 3).max(2)),
            _ => {
                if rng.chance(0.4) {
                    0
                } else {
                    rng.range(1, (len / 5).max(2))
                }
            }
        };
        pos += gap;
        if rng.chance(0.04) {
            break;
        }
    }
    if items.is_empty() {
        items.push((0, 1, 1.0));
    }
    let last_end = items[items.len() - 1].1;
    if rng.chance(0.4) && last_end < len {
        let s = last_end.max(len - rng.range(1, 5));
        items.push((s, len, gen_value(rng)));
    }
    items
}

fn gen_bigbed(rng: &mut Rng, len: i64) -> Vec<(i64, i64)> {
    let n = [1, 2, 3, 4, 6, 9, 14][rng.below(7) as usize];
    let mut ents: Vec<(i64, i64)> = vec![];
    for _ in 0..n {
        let r = rng.unit();
        if !ents.is_empty() && r < 0.15 {
            let e = ents[rng.below(ents.len() as u64) as usize];
            ents.push(e);
        } else if !ents.is_empty() && r < 0.35 {
            let (a, b) = ents[rng.below(ents.len() as u64) as usize];
            if b - a >= 2 {
                let s = rng.range(a, b - 1);
                let e = rng.range(s + 1, b);
                ents.push((s, e));
            } else {
                ents.push((a, b));
            }
        } else if !ents.is_empty() && r < 0.5 {
            let (a, b) = ents[rng.below(ents.len() as u64) as usize];
            let s = rng.range(a, b.min(len - 1));
            let e = (s + rng.range(1, (len / 3).max(1))).min(len);
            ents.push((s, e));
        } else {
            let s = rng.range(0, len - 1);
            let e = (s + rng.range(1, (len / 2).max(1))).min(len);
            ents.push((s, e));
        }
    }
    if rng.chance(0.35) {
        ents.push((0, rng.range(1, len)));
    }
    if rng.chance(0.35) {
        ents.push((rng.range(0, len - 1), len));
    }
    ents.sort();
    ents
}

struct Model {
    len: i64,
    base: Vec<Option<f64>>,
}

impl Model {
    fn from_bigwig(len: i64, items: &[(i64, i64, f32)]) -> Model {
        let mut base = vec![None; len as usize];
        for &(a, b, v) in items {
            for p in a..b {
                base[p as usize] = Some(v as f64);
            }
        }
        Model { len, base }
    }
    fn from_bigbed(len: i64, ents: &[(i64, i64)]) -> Model {
        let mut base: Vec<Option<f64>> = vec![None; len as usize];
        for &(a, b) in ents {
            for p in a..b {
                let c = base[p as usize].unwrap_or(0.0);
                base[p as usize] = Some(c + 1.0);
            }
        }
        Model { len, base }
    }
    fn at(&self, p: i64) -> Option<f64> {
        if p < 0 || p >= self.len {
            None
        } else {
            self.base[p as usize]
        }
    }
    /// (min, max) of the data in [lo,hi)
    fn data_range(&self, lo: i64, hi: i64) -> Option<(f64, f64)> {
        let mut r: Option<(f64, f64)> = None;
        for p in lo.max(0)..hi.min(self.len) {
            if let Some(v) = self.base[p as usize] {
                r = Some(match r {
                    None => (v, v),
                    Some((a, b)) => (a.min(v), b.max(v)),
                });
            }
        }
        r
    }
    /// statistic over covered bases of [lo,hi): (value, covered, in-chromosome bases)
    fn stat(&self, lo: i64, hi: i64, which: u8) -> (Option<f64>, i64, i64) {
        let mut n = 0i64;
        let mut nb = 0i64;
        let mut sum = 0.0f64;
        let mut mn = f64::INFINITY;
        let mut mx = f64::NEG_INFINITY;
        for p in lo.max(0)..hi.min(self.len) {
            nb += 1;
            if let Some(v) = self.base[p as usize] {
                n += 1;
                sum += v;
                mn = mn.min(v);
                mx = mx.max(v);
            }
        }
        if n == 0 {
            return (None, 0, nb);
        }
        let v = match which {
            0 => sum / n as f64,
            1 => mn,
            _ => mx,
        };
        (Some(v), n, nb)
    }
}

fn same(a: f64, b: f64) -> bool {
    (a.is_nan() && b.is_nan()) || a == b
}

fn close(a: f64, b: f64, scale: f64) -> bool {
    if same(a, b) {
        return true;
    }
    if !a.is_finite() || !b.is_finite() {
        return false;
    }
    (a - b).abs() <= 1e-9 * a.abs().max(b.abs()).max(scale)
}

fn gen_missing(rng: &mut Rng) -> f64 {
    let r = rng.unit();
    if r < 0.08 {
        f64::NAN
    } else if r < 0.7 {
        [0.0, -1.0, 1.0, 2.5, -7.25, 100.0, -0.0, 1.0e6, -1.0e-3, 0.5][rng.below(10) as usize]
    } else {
        ((rng.unit() * 100.0 - 50.0) * 1000.0).round() / 1000.0
    }
}

/// (start, end) with a non-empty intersection with the chromosome; may extend below 0 / past the end
fn gen_range(rng: &mut Rng, len: i64, pts: &[i64]) -> (i32, i32) {
    let pick = |rng: &mut Rng, lo: i64, hi: i64| -> i64 {
        if rng.chance(0.6) {
            let c: Vec<i64> = pts.iter().copied().filter(|p| *p >= lo && *p <= hi).collect();
            if !c.is_empty() {
                return c[rng.below(c.len() as u64) as usize];
            }
        }
        rng.range(lo, hi)
    };
    let r = rng.unit();
    let (s, e) = if r < 0.08 {
        (0, len)
    } else if r < 0.5 {
        let s = pick(rng, 0, len - 1);
        (s, pick(rng, s + 1, len))
    } else if r < 0.67 {
        (-rng.range(1, 25), pick(rng, 1, len))
    } else if r < 0.84 {
        (pick(rng, 0, len - 1), len + rng.range(1, 25))
    } else if r < 0.95 {
        (-rng.range(1, 25), len + rng.range(1, 25))
    } else {
        let s = pick(rng, 0, len - 1);
        (s, (s + rng.range(1, 3)).min(len))
    };
    (s as i32, e as i32)
}

fn gen_bins(rng: &mut Rng, n: i64) -> usize {
    let r = rng.unit();
    let b = if r < 0.48 {
        let d: Vec<i64> = (1..=n).filter(|d| n % d == 0).collect();
        d[rng.below(d.len() as u64) as usize]
    } else if r < 0.58 {
        n
    } else if r < 0.66 {
        1
    } else if r < 0.8 {
        rng.range(1, n.min(4))
    } else {
        rng.range(1, n)
    };
    b as usize
}

fn boundary_points(spans: &[(i64, i64)], len: i64) -> Vec<i64> {
    let mut v = vec![0, len];
    for &(a, b) in spans {
        for p in [a, b] {
            v.push(p - 1);
            v.push(p);
            v.push(p + 1);
        }
    }
    v.sort();
    v.dedup();
    v
}

fn fmt_arr(a: &[f64]) -> String {
    let mut s = String::from("[");
    for (i, x) in a.iter().enumerate() {
        if i >= 48 {
            s.push_str(&format!(", ... {} more", a.len() - 48));
            break;
        }
        if i > 0 {
            s.push_str(", ");
        }
        s.push_str(&format!("{:?}", x));
    }
    s.push(']');
    s
}

fn panic_msg(p: Box<dyn std::any::Any + Send>) -> String {
    if let Some(s) = p.downcast_ref::<&str>() {
        s.to_string()
    } else if let Some(s) = p.downcast_ref::<String>() {
        s.clone()
    } else {
        "<non-string panic payload>".to_string()
    }
}

fn msg_kind(msg: &str) -> &'static str {
    if msg.contains("out of bounds") {
        // "ndarray: index out of bounds" (release) / "ndarray: index 20 is out of bounds for array of shape [20]"
        "index_oob"
    } else if msg.starts_with("assertion `left == right` failed") {
        "assert_eq"
    } else if msg.starts_with("assertion failed") {
        "assert"
    } else if msg.contains("slice index") || msg.contains("range end index") || msg.contains("range start index") {
        "slice_index"
    } else if msg.contains("overflow") {
        "arith_overflow"
    } else {
        "other"
    }
}

fn sname(which: u8) -> &'static str {
    match which {
        0 => "mean",
        1 => "min",
        _ => "max",
    }
}

fn summary_of(which: u8) -> Summary {
    match which {
        0 => Summary::Mean,
        1 => Summary::Min,
        _ => Summary::Max,
    }
}

/// Run `f` on a fresh output array prefilled with garbage; Err(msg) if it panicked.
fn guarded<F: FnOnce(&mut Array1<f64>) -> Result<(), _BBIReadError>>(n: usize, f: F) -> Result<Vec<f64>, String> {
    let mut arr = Array1::from(vec![12345.678f64; n]);
    IN_ROUTINE.store(true, Ordering::SeqCst);
    let r = catch_unwind(AssertUnwindSafe(|| f(&mut arr)));
    IN_ROUTINE.store(false, Ordering::SeqCst);
    match r {
        Ok(Ok(())) => Ok(arr.to_vec()),
        Ok(Err(e)) => Err(format!("routine returned Err: {}", e)),
        Err(p) => Err(panic_msg(p)),
    }
}

struct BinCtx<'a> {
    routine: &'static str,
    kind: &'static str, // "bigwig" | "bigbed"
    model: &'a Model,
    s: i64,
    e: i64,
    bins: usize,
    which: u8,
    missing: f64,
    zoom_ext: Option<i64>, // Some(resolution) on the zoom path
    /// spans of the input items (for "no input overlaps this bin => missing" on the zoom path)
    spans: &'a [(i64, i64)],
}

/// Checks of a binned output shared by the four binned routines.
fn check_bins(b: &mut Batch, cx: &BinCtx, got: &[f64], describe: &dyn Fn() -> String) {
    let n = cx.e - cx.s;
    let integral = n % cx.bins as i64 == 0;
    let wtag = if integral { "integral_width" } else { "nonintegral_width" };
    let nan_missing = cx.missing.is_nan();
    let feat = if cx.kind == "bigbed" && !nan_missing && cx.missing > 0.0 {
        ":missing_positive"
    } else {
        ""
    };
    let rng_ = match cx.zoom_ext {
        Some(r) => cx.model.data_range(cx.s - r, cx.e + r),
        None => cx.model.data_range(cx.s, cx.e),
    };
    let scale = rng_.map(|(a, b)| a.abs().max(b.abs())).unwrap_or(0.0);
    for i in 0..cx.bins {
        let g = got[i];
        if g.is_nan() && !nan_missing {
            b.add(
                "nan_in_bins",
                format!("{}:{}", cx.routine, wtag),
                format!("bin {} is NaN; {} got={}", i, describe(), fmt_arr(got)),
            );
            continue;
        }
        if integral {
            let w = n / cx.bins as i64;
            let lo = cx.s + i as i64 * w;
            let hi = lo + w;
            if cx.zoom_ext.is_none() {
                let (st, ncov, nb) = cx.model.stat(lo, hi, cx.which);
                let expv = st.unwrap_or(cx.missing);
                let ok = if cx.which == 0 { close(g, expv, scale) } else { same(g, expv) };
                if ok {
                    continue;
                }
                let mut f2 = feat.to_string();
                // (bases of the span that lie outside the chromosome are uncovered bases too)
                if f2.is_empty() && cx.kind == "bigbed" && cx.which == 1 && ncov > 0 && ncov < w {
                    f2 = ":partially_covered_bin".to_string();
                }
                b.add(
                    "bin_value_wrong",
                    format!("{}:{}:{}{}", cx.routine, wtag, sname(cx.which), f2),
                    format!(
                        "bin {} span [{},{}) got {:?} expected {:?} (covered {} of {} in-chromosome bases); {} got={}",
                        i, lo, hi, g, expv, ncov, nb, describe(), fmt_arr(got)
                    ),
                );
                continue;
            } else {
                // zoom path, integral width: a bin that no record overlaps must be `missing`
                let touched = cx.spans.iter().any(|&(a, bb)| a < hi && bb > lo);
                if !touched && !same(g, cx.missing) {
                    b.add(
                        "bin_value_wrong",
                        format!("{}:{}:{}:no_record_overlaps_bin", cx.routine, wtag, sname(cx.which)),
                        format!("bin {} span [{},{}) got {:?} expected missing; {} got={}", i, lo, hi, g, describe(), fmt_arr(got)),
                    );
                    continue;
                }
            }
        }
        // weak bound
        if same(g, cx.missing) {
            continue;
        }
        if let Some((lo, hi)) = rng_ {
            let tol = 1e-9 * scale;
            if !g.is_nan() && g >= lo - tol && g <= hi + tol {
                continue;
            }
        }
        b.add(
            "bin_out_of_range",
            format!("{}:{}:{}{}", cx.routine, wtag, sname(cx.which), feat),
            format!(
                "bin {} = {:?} is neither `missing` nor within the data range {:?}; {} got={}",
                i, g, rng_, describe(), fmt_arr(got)
            ),
        );
    }
}

fn panic_site(routine: &'static str, msg: &str, feature: &str) -> String {
    format!("{}:{}:{}", routine, feature, msg_kind(msg))
}

// ------------------------------------------------------------------------------------------------
// bigWig: to_array, to_array_bins
// ------------------------------------------------------------------------------------------------

fn clip_values(items: &[(i64, i64, f32)], qs: i64, qe: i64) -> Vec<Value> {
    items
        .iter()
        .filter(|(a, b, _)| *a < qe && *b > qs)
        .map(|&(a, b, v)| Value {
            start: a.max(qs) as u32,
            end: b.min(qe) as u32,
            value: v,
        })
        .collect()
}

fn run_batches(routine: &'static str, body: &mut dyn FnMut(&mut Rng, &mut Batch)) {
    quiet_panics();
    let seed = env_u64("VERIF_SEED", 1);
    let cases = env_u64("VERIF_C20_CASES", 4000);
    let nb = 8u64;
    let stream = routine.bytes().fold(7u64, |a, c| a.wrapping_mul(131).wrapping_add(c as u64));
    for bi in 0..nb {
        let mut batch = Batch::new(routine, bi);
        let per = cases / nb + if bi < cases % nb { 1 } else { 0 };
        let mut rng = Rng::new(seed, stream.wrapping_add(bi.wrapping_mul(0x51ED270B)));
        for _ in 0..per {
            batch.cases += 1;
            body(&mut rng, &mut batch);
        }
        batch.print(seed);
    }
}

#[test]
fn c20_to_array() {
    run_batches("to_array", &mut |rng, b| {
        let len = rng.range(30, 200);
        let items = gen_bigwig(rng, len);
        let model = Model::from_bigwig(len, &items);
        let spans: Vec<(i64, i64)> = items.iter().map(|x| (x.0, x.1)).collect();
        let pts = boundary_points(&spans, len);
        if items.len() >= 2 {
            b.nontrivial += 1;
        }
        for _ in 0..4 {
            let (s, e) = gen_range(rng, len, &pts);
            let missing = gen_missing(rng);
            let (qs, qe) = ((s as i64).max(0), (e as i64).min(len));
            let vals = clip_values(&items, qs, qe);
            fnv(&mut b.hash, (s as u64) << 32 | (e as u32) as u64);
            fnv(&mut b.hash, vals.len() as u64 ^ missing.to_bits());
            b.calls += 1;
            let n = (e - s) as usize;
            let input = vals.clone();
            let r = guarded(n, |arr| to_array(s, e, input.into_iter().map(Ok), missing, arr.view_mut()));
            let describe = || format!("to_array({}, {}, {:?}, missing={:?}) chrom_len={}", s, e, vals, missing, len);
            match r {
                Err(msg) => b.add("panic", panic_site("to_array", &msg, "per_base"), format!("{}: {}", msg, describe())),
                Ok(got) => {
                    for i in 0..n {
                        let expv = model.at(s as i64 + i as i64).unwrap_or(missing);
                        if !same(got[i], expv) {
                            b.add(
                                "per_base_wrong",
                                "to_array".to_string(),
                                format!("index {} got {:?} expected {:?}; {} got={}", i, got[i], expv, describe(), fmt_arr(&got)),
                            );
                            break;
                        }
                    }
                }
            }
        }
    });
}

#[test]
fn c20_to_array_bins() {
    run_batches("to_array_bins", &mut |rng, b| {
        let len = rng.range(30, 200);
        let items = gen_bigwig(rng, len);
        let model = Model::from_bigwig(len, &items);
        let spans: Vec<(i64, i64)> = items.iter().map(|x| (x.0, x.1)).collect();
        let pts = boundary_points(&spans, len);
        if items.len() >= 2 {
            b.nontrivial += 1;
        }
        for _ in 0..4 {
            let (s, e) = gen_range(rng, len, &pts);
            let bins = gen_bins(rng, (e - s) as i64);
            let which = rng.below(3) as u8;
            let missing = gen_missing(rng);
            let (qs, qe) = ((s as i64).max(0), (e as i64).min(len));
            let vals = clip_values(&items, qs, qe);
            fnv(&mut b.hash, (s as u64) << 32 | (e as u32) as u64);
            fnv(&mut b.hash, (vals.len() as u64) << 20 ^ (bins as u64) << 2 ^ which as u64 ^ missing.to_bits());
            b.calls += 1;
            let input = vals.clone();
            let r = guarded(bins, |arr| {
                to_array_bins(s, e, input.into_iter().map(Ok), summary_of(which), bins, missing, arr.view_mut())
            });
            let describe = || {
                format!(
                    "to_array_bins({}, {}, {:?}, {}, bins={}, missing={:?}) chrom_len={}",
                    s, e, vals, sname(which), bins, missing, len
                )
            };
            let wtag = if (e - s) as usize % bins == 0 { "integral_width" } else { "nonintegral_width" };
            match r {
                Err(msg) => b.add("panic", panic_site("to_array_bins", &msg, wtag), format!("{}: {}", msg, describe())),
                Ok(got) => {
                    let cx = BinCtx {
                        routine: "to_array_bins",
                        kind: "bigwig",
                        model: &model,
                        s: s as i64,
                        e: e as i64,
                        bins,
                        which,
                        missing,
                        zoom_ext: None,
                        spans: &spans,
                    };
                    check_bins(b, &cx, &got, &describe);
                }
            }
        }
    });
}

// ------------------------------------------------------------------------------------------------
// bigBed: to_entry_array, to_entry_array_bins
// ------------------------------------------------------------------------------------------------

/// entries the reader hands over for the clipped range [qs,qe): overlapping ones, plus (abut) touching ones
fn select_entries(ents: &[(i64, i64)], qs: i64, qe: i64, abut: bool) -> Vec<(i64, i64)> {
    ents.iter()
        .copied()
        .filter(|&(a, b)| (a < qe && b > qs) || (abut && (a == qe || b == qs)))
        .collect()
}

/// Discriminating feature of a failing per-base call. An entry that starts before the range is dropped
/// silently (its start wraps around), whether or not it also ends after the range; an entry that starts
/// inside and ends after the range indexes past the array.
fn entry_features(sel: &[(i64, i64)], s: i64, e: i64, qs: i64, qe: i64, panicked: bool) -> &'static str {
    let overl = |x: &(i64, i64)| x.0 < qe && x.1 > qs;
    let ends_after = sel.iter().any(|x| overl(x) && x.0 >= s && x.1 > e);
    let starts_before = sel.iter().any(|x| overl(x) && x.0 < s);
    let abut_end = sel.iter().any(|x| x.0 == qe);
    let abut_start = sel.iter().any(|x| x.1 == qs);
    if panicked {
        if ends_after {
            "entry_ends_after_range"
        } else if abut_end {
            "entry_starts_at_range_end"
        } else if starts_before {
            "entry_starts_before_range"
        } else {
            "no_feature"
        }
    } else if starts_before {
        "entry_starts_before_range"
    } else if ends_after {
        "entry_ends_after_range"
    } else if abut_end {
        "entry_starts_at_range_end"
    } else if abut_start {
        "entry_ends_at_range_start"
    } else {
        "no_feature"
    }
}

fn to_bed(sel: &[(i64, i64)]) -> Vec<BedEntry> {
    sel.iter()
        .map(|&(a, b)| BedEntry {
            start: a as u32,
            end: b as u32,
            rest: String::new(),
        })
        .collect()
}

#[test]
fn c20_to_entry_array() {
    run_batches("to_entry_array", &mut |rng, b| {
        let len = rng.range(30, 200);
        let ents = gen_bigbed(rng, len);
        let model = Model::from_bigbed(len, &ents);
        let pts = boundary_points(&ents, len);
        if ents.len() >= 2 {
            b.nontrivial += 1;
        }
        for _ in 0..4 {
            let (s, e) = gen_range(rng, len, &pts);
            let missing = gen_missing(rng);
            let abut = rng.chance(0.2);
            let (qs, qe) = ((s as i64).max(0), (e as i64).min(len));
            let sel = select_entries(&ents, qs, qe, abut);
            fnv(&mut b.hash, (s as u64) << 32 | (e as u32) as u64);
            fnv(&mut b.hash, sel.len() as u64 ^ missing.to_bits());
            b.calls += 1;
            let n = (e - s) as usize;
            let input = to_bed(&sel);
            let r = guarded(n, |arr| to_entry_array(s, e, input.into_iter().map(Ok), missing, arr.view_mut()));
            let feat_of = |panicked: bool| entry_features(&sel, s as i64, e as i64, qs, qe, panicked);
            let describe = || format!("to_entry_array({}, {}, entries={:?}, missing={:?}) chrom_len={}", s, e, sel, missing, len);
            match r {
                Err(msg) => b.add("panic", panic_site("to_entry_array", &msg, feat_of(true)), format!("{}: {}", msg, describe())),
                Ok(got) => {
                    for i in 0..n {
                        let expv = model.at(s as i64 + i as i64).unwrap_or(missing);
                        if !same(got[i], expv) {
                            b.add(
                                "per_base_wrong",
                                format!("to_entry_array:{}", feat_of(false)),
                                format!("index {} got {:?} expected {:?}; {} got={}", i, got[i], expv, describe(), fmt_arr(&got)),
                            );
                            break;
                        }
                    }
                }
            }
        }
    });
}

#[test]
fn c20_to_entry_array_bins() {
    run_batches("to_entry_array_bins", &mut |rng, b| {
        let len = rng.range(30, 200);
        let ents = gen_bigbed(rng, len);
        let model = Model::from_bigbed(len, &ents);
        let pts = boundary_points(&ents, len);
        if ents.len() >= 2 {
            b.nontrivial += 1;
        }
        for _ in 0..4 {
            let (s, e) = gen_range(rng, len, &pts);
            let bins = gen_bins(rng, (e - s) as i64);
            let which = rng.below(3) as u8;
            let missing = gen_missing(rng);
            let abut = rng.chance(0.2);
            let (qs, qe) = ((s as i64).max(0), (e as i64).min(len));
            let sel = select_entries(&ents, qs, qe, abut);
            fnv(&mut b.hash, (s as u64) << 32 | (e as u32) as u64);
            fnv(&mut b.hash, (sel.len() as u64) << 20 ^ (bins as u64) << 2 ^ which as u64 ^ missing.to_bits());
            b.calls += 1;
            let input = to_bed(&sel);
            let r = guarded(bins, |arr| {
                to_entry_array_bins(s, e, input.into_iter().map(Ok), summary_of(which), bins, missing, arr.view_mut())
            });
            let describe = || {
                format!(
                    "to_entry_array_bins({}, {}, entries={:?}, {}, bins={}, missing={:?}) chrom_len={}",
                    s, e, sel, sname(which), bins, missing, len
                )
            };
            let wtag = if (e - s) as usize % bins == 0 { "integral_width" } else { "nonintegral_width" };
            match r {
                Err(msg) => {
                    let f = if sel.iter().any(|x| x.0 == qe) && msg_kind(&msg) == "index_oob" {
                        "entry_starts_at_range_end"
                    } else {
                        wtag
                    };
                    b.add("panic", panic_site("to_entry_array_bins", &msg, f), format!("{}: {}", msg, describe()))
                }
                Ok(got) => {
                    let cx = BinCtx {
                        routine: "to_entry_array_bins",
                        kind: "bigbed",
                        model: &model,
                        s: s as i64,
                        e: e as i64,
                        bins,
                        which,
                        missing,
                        zoom_ext: None,
                        spans: &ents,
                    };
                    check_bins(b, &cx, &got, &describe);
                }
            }
        }
    });
}

// ------------------------------------------------------------------------------------------------
// zoom routines
// ------------------------------------------------------------------------------------------------

/// A real ZoomRecord to copy (its `chrom` field cannot be set from outside bigtools).
fn zoom_template() -> Option<ZoomRecord> {
    let root = env!("CARGO_MANIFEST_DIR");
    let bw = format!("{}/../bigtools/resources/test/valid.bigWig", root);
    if let Ok(mut r) = BigWigReadRaw::open_file(&bw) {
        let chroms: Vec<(String, u32)> = r.chroms().iter().map(|c| (c.name.clone(), c.length)).collect();
        let levels: Vec<u32> = r.info().zoom_headers.iter().map(|z| z.reduction_level).collect();
        for lv in levels {
            for (name, length) in chroms.iter() {
                if let Ok(it) = r.get_zoom_interval(name, 0, *length, lv) {
                    for rec in it {
                        if let Ok(rec) = rec {
                            return Some(rec);
                        }
                    }
                }
            }
        }
    }
    let bb = format!("{}/tests/data/bigBedExample.bb", root);
    if let Ok(mut r) = BigBedReadRaw::open_file(&bb) {
        let chroms: Vec<(String, u32)> = r.chroms().iter().map(|c| (c.name.clone(), c.length)).collect();
        let levels: Vec<u32> = r.info().zoom_headers.iter().map(|z| z.reduction_level).collect();
        for lv in levels {
            for (name, length) in chroms.iter() {
                if let Ok(it) = r.get_zoom_interval(name, 0, *length, lv) {
                    for rec in it {
                        if let Ok(rec) = rec {
                            return Some(rec);
                        }
                    }
                }
            }
        }
    }
    None
}

/// Tile the covered bases the way the writers do: a record starts at the first covered base not yet
/// summarised, spans at most `res` bases and ends after its last covered base.
fn zoom_records(model: &Model, res: i64, tmpl: ZoomRecord) -> Vec<ZoomRecord> {
    let mut out = vec![];
    let mut p = 0i64;
    while p < model.len {
        if model.base[p as usize].is_none() {
            p += 1;
            continue;
        }
        let start = p;
        let lim = (start + res).min(model.len);
        let mut end = start;
        let mut n = 0u64;
        let mut sum = 0.0f64;
        let mut sq = 0.0f64;
        let mut mn = f64::INFINITY;
        let mut mx = f64::NEG_INFINITY;
        for q in start..lim {
            if let Some(v) = model.base[q as usize] {
                end = q + 1;
                n += 1;
                sum += v;
                sq += v * v;
                mn = mn.min(v);
                mx = mx.max(v);
            }
        }
        let mut rec = tmpl;
        rec.start = start as u32;
        rec.end = end as u32;
        rec.summary.total_items = 0;
        rec.summary.bases_covered = n;
        rec.summary.min_val = mn;
        rec.summary.max_val = mx;
        rec.summary.sum = sum;
        rec.summary.sum_squares = sq;
        out.push(rec);
        p = end;
    }
    out
}

fn zoom_test(routine: &'static str, bigbed: bool) {
    let tmpl = match zoom_template() {
        Some(t) => t,
        None => {
            println!(
                "C20RS {{\"routine\":{},\"batch\":0,\"cases\":0,\"calls\":0,\"nontrivial\":0,\"hash\":\"0\",\"skipped\":\"no template ZoomRecord could be read from /repo's test resources\",\"viols\":[]}}",
                jstr(routine)
            );
            return;
        }
    };
    run_batches(routine, &mut |rng, b| {
        let len = rng.range(30, 200);
        // moderate magnitudes only: the mean of a record is sum/bases_covered and huge values of mixed sign
        // would make the oracle's range check a statement about cancellation, not about the routine
        let (model, spans): (Model, Vec<(i64, i64)>) = if bigbed {
            let ents = gen_bigbed(rng, len);
            (Model::from_bigbed(len, &ents), ents)
        } else {
            let mut items = gen_bigwig(rng, len);
            for it in items.iter_mut() {
                if it.2.abs() > 1.0e6 || (it.2 != 0.0 && it.2.abs() < 1.0e-6) {
                    it.2 = 4.0;
                }
            }
            let sp = items.iter().map(|x| (x.0, x.1)).collect();
            (Model::from_bigwig(len, &items), sp)
        };
        let pts = boundary_points(&spans, len);
        if spans.len() >= 2 {
            b.nontrivial += 1;
        }
        let res = [2i64, 3, 4, 5, 7, 10, 16][rng.below(7) as usize];
        let recs = zoom_records(&model, res, tmpl);
        for _ in 0..4 {
            let (s, e) = gen_range(rng, len, &pts);
            let bins = gen_bins(rng, (e - s) as i64);
            let which = rng.below(3) as u8;
            let missing = gen_missing(rng);
            let abut = rng.chance(0.2);
            let (qs, qe) = ((s as i64).max(0), (e as i64).min(len));
            let sel: Vec<ZoomRecord> = recs
                .iter()
                .copied()
                .filter(|r| {
                    let (a, bb) = (r.start as i64, r.end as i64);
                    (a < qe && bb > qs) || (abut && (a == qe || bb == qs))
                })
                .collect();
            let sel_spans: Vec<(i64, i64)> = sel.iter().map(|r| (r.start as i64, r.end as i64)).collect();
            fnv(&mut b.hash, (s as u64) << 32 | (e as u32) as u64);
            fnv(&mut b.hash, (sel.len() as u64) << 20 ^ (bins as u64) << 2 ^ which as u64 ^ missing.to_bits());
            b.calls += 1;
            let input = sel.clone();
            let r = guarded(bins, |arr| {
                if bigbed {
                    to_entry_array_zoom(s, e, input.into_iter().map(Ok), summary_of(which), bins, missing, arr.view_mut())
                } else {
                    to_array_zoom(s, e, input.into_iter().map(Ok), summary_of(which), bins, missing, arr.view_mut())
                }
            });
            let describe = || {
                let rs: Vec<String> = sel
                    .iter()
                    .map(|r| {
                        format!(
                            "({},{},cov={},min={:?},max={:?},sum={:?})",
                            r.start, r.end, r.summary.bases_covered, r.summary.min_val, r.summary.max_val, r.summary.sum
                        )
                    })
                    .collect();
                format!(
                    "{}({}, {}, records(res {})=[{}], {}, bins={}, missing={:?}) chrom_len={}",
                    routine, s, e, res, rs.join(" "), sname(which), bins, missing, len
                )
            };
            let wtag = if (e - s) as usize % bins == 0 { "integral_width" } else { "nonintegral_width" };
            match r {
                Err(msg) => {
                    let f = if sel_spans.iter().any(|x| x.0 == qe) && msg_kind(&msg) == "index_oob" {
                        "record_starts_at_range_end"
                    } else {
                        wtag
                    };
                    b.add("panic", panic_site(routine, &msg, f), format!("{}: {}", msg, describe()))
                }
                Ok(got) => {
                    let cx = BinCtx {
                        routine,
                        kind: if bigbed { "bigbed" } else { "bigwig" },
                        model: &model,
                        s: s as i64,
                        e: e as i64,
                        bins,
                        which,
                        missing,
                        zoom_ext: Some(res),
                        spans: &sel_spans,
                    };
                    check_bins(b, &cx, &got, &describe);
                }
            }
        }
    });
}

#[test]
fn c20_to_array_zoom() {
    zoom_test("to_array_zoom", false);
}

#[test]
fn c20_to_entry_array_zoom() {
    zoom_test("to_entry_array_zoom", true);
}
