mod cases;
mod gen;
mod hooks;
mod model;
mod proto;
mod sink;
mod util;
mod walk;
mod wr;

use proto::{Ctx, Outcome, Tier};
use util::J;

type CaseFn = fn(&Ctx, &mut dyn FnMut(J)) -> Outcome;

fn lookup(cmd: &str) -> Option<CaseFn> {
    Some(match cmd {
        "c01" => cases::rt::c01,
        "c02" => cases::rt::c02,
        "c03" => cases::query::c03,
        "c03r" => cases::query::c03r,
        "c04" => cases::query::c04,
        "c05" => cases::rtree::c05,
        "c06" => cases::rt::c06,
        "c09emit" => cases::rt::c09emit,
        "c11w" => cases::sched::c11w,
        "c11c" => cases::sched::c11c,
        "c13" => cases::refuse::c13,
        "c15m" => cases::signal::c15m,
        "c15f" => cases::signal::c15f,
        "c17l" => cases::signal::c17l,
        "c19g" => cases::asql::c19g,
        "c19t" => cases::asql::c19t,
        "c19x" => cases::asql::c19x,
        "c18i" => cases::slice::c18i,
        "c18v" => cases::slice::c18v,
        "c18s" => cases::slice::c18s,
        "c14" => cases::fault::c14,
        "c12x" => cases::tfb::c12x,
        "c12t" => cases::tfb::c12t,
        "c07" => cases::zoom::c07,
        "c08" => cases::zoom::c08,
        _ => return None,
    })
}

fn main() {
    let args: Vec<String> = std::env::args().collect();
    if args.len() < 2 {
        eprintln!("usage: bvh <cmd> --seed S --shard i/n --cases N [--from k] [--only k] [--tier quick|thorough] [--scratch dir] [--arg s]");
        std::process::exit(2);
    }
    let cmd = args[1].clone();
    let mut seed = 1u64;
    let mut shard = (0u64, 1u64);
    let mut cases = 1u64;
    let mut from = 0u64;
    let mut only: Option<u64> = None;
    let mut tier = Tier::Quick;
    let mut scratch = std::env::temp_dir();
    let mut arg = String::new();
    let mut i = 2;
    while i < args.len() {
        let v = args.get(i + 1).cloned().unwrap_or_default();
        match args[i].as_str() {
            "--seed" => seed = v.parse().unwrap(),
            "--shard" => {
                let (a, b) = v.split_once('/').unwrap();
                shard = (a.parse().unwrap(), b.parse().unwrap());
            }
            "--cases" => cases = v.parse().unwrap(),
            "--from" => from = v.parse().unwrap(),
            "--only" => only = Some(v.parse().unwrap()),
            "--tier" => tier = if v == "thorough" { Tier::Thorough } else { Tier::Quick },
            "--scratch" => scratch = v.into(),
            "--arg" => arg = v,
            x => {
                eprintln!("unknown flag {}", x);
                std::process::exit(2);
            }
        }
        i += 2;
    }
    wr::install_panic_hook();
    hooks::install();
    if let Some(r) = cases::special(&cmd, seed, tier, &scratch, &arg) {
        std::process::exit(r);
    }
    let f = match lookup(&cmd) {
        Some(f) => f,
        None => {
            eprintln!("unknown command {}", cmd);
            std::process::exit(2);
        }
    };
    let range: Vec<u64> = match only {
        Some(k) => vec![k],
        None => (from..cases).filter(|k| k % shard.1 == shard.0).collect(),
    };
    for k in range {
        let ctx = Ctx { seed, tier, case: k, scratch: scratch.clone(), arg: arg.clone() };
        hooks::set_case(k);
        let mut began = false;
        let mut begin = |d: J| {
            if !began {
                proto::emit_begin(k, d);
                began = true;
            }
        };
        let _ = wr::take_panics();
        let res = std::panic::catch_unwind(std::panic::AssertUnwindSafe(|| f(&ctx, &mut begin)));
        if !began {
            proto::emit_begin(k, J::Null);
        }
        let out = match res {
            Ok(o) => o,
            Err(_) => {
                // an unguarded panic: a bigtools frame means the library panicked on a path the
                // case did not expect to panic; anything else is a harness bug (inconclusive)
                let panics = wr::take_panics();
                let mut o = Outcome::new();
                let site = wr::panic_site(&panics);
                if panics.iter().any(|p| p.contains("/repo/") || p.contains("bigtools/src")) {
                    o.viol("panic", site, J::A(panics.into_iter().map(J::S).collect()));
                } else {
                    o.inconclusive = Some(format!("harness_panic: {:?}", panics));
                }
                o
            }
        };
        proto::emit_end(k, &out);
    }
    proto::emit(&J::obj().set("ev", "done".into()));
}
