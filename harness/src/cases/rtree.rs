//! C05: the written R-tree finds exactly what a linear scan finds, exhaustively over (n, b).
use crate::gen::*;
use crate::proto::{Ctx, Outcome, Tier};
use crate::sink::MemSink;
use crate::util::{Fnv, J};
use crate::walk;
use crate::wr::{self, CallResult};
use bigtools::{BigWigRead, Value};
use std::io::{self, Read, Seek, SeekFrom};
use std::sync::{Arc, Mutex};

/// Cursor that logs (offset, len) of every read so the blocks the reader fetched can be observed.
struct LogCursor {
    data: Arc<Vec<u8>>,
    pos: u64,
    log: Arc<Mutex<Vec<(u64, u64)>>>,
}
impl Read for LogCursor {
    fn read(&mut self, buf: &mut [u8]) -> io::Result<usize> {
        let start = (self.pos as usize).min(self.data.len());
        let n = (self.data.len() - start).min(buf.len());
        buf[..n].copy_from_slice(&self.data[start..start + n]);
        self.log.lock().unwrap().push((self.pos, n as u64));
        self.pos += n as u64;
        Ok(n)
    }
}
impl Seek for LogCursor {
    fn seek(&mut self, from: SeekFrom) -> io::Result<u64> {
        let new = match from {
            SeekFrom::Start(p) => p as i128,
            SeekFrom::Current(d) => self.pos as i128 + d as i128,
            SeekFrom::End(d) => self.data.len() as i128 + d as i128,
        };
        self.pos = new.max(0) as u64;
        Ok(self.pos)
    }
}

/// Enumerated shapes: (n, b, split) where split = 0 one chromosome, 1.. three-chromosome splits.
pub fn shapes(tier: Tier) -> Vec<(usize, u32, Vec<usize>)> {
    let (nmax, bmax) = if tier == Tier::Quick { (40, 5) } else { (90, 9) };
    let mut v = vec![];
    for b in 2..=bmax {
        for n in 1..=nmax {
            v.push((n, b, vec![n]));
            if n >= 3 {
                if n <= 9 {
                    // all compositions into three positive parts
                    for a in 1..n - 1 {
                        for c in 1..n - a {
                            v.push((n, b, vec![a, c, n - a - c]));
                        }
                    }
                } else {
                    let t = n / 3;
                    v.push((n, b, vec![t, t, n - 2 * t]));
                    v.push((n, b, vec![1, n - 2, 1]));
                }
            }
        }
    }
    v
}

pub fn c05(ctx: &Ctx, begin: &mut dyn FnMut(J)) -> Outcome {
    let all = shapes(ctx.tier);
    let mut out = Outcome::new();
    let Some((n, b, split)) = all.get(ctx.case as usize).cloned() else {
        begin(J::Null);
        out.inconclusive = Some("blocked_by:none case index beyond the enumeration".into());
        return out;
    };
    begin(J::obj().set("n", n.into()).set("b", b.into()).set("split", J::A(split.iter().map(|x| J::U(*x as u64)).collect())));
    let names = ["chrA", "chrB", "chrC"];
    let mut input: BwInput = vec![];
    for (ci, cnt) in split.iter().enumerate() {
        let vals: Vec<Value> = (0..*cnt as u32).map(|i| Value { start: 10 * i, end: 10 * i + 5, value: (ci * 1000) as f32 + i as f32 }).collect();
        // first chromosome ends exactly at its last value's end; others leave a tail
        let size = if ci == 0 { 10 * (*cnt as u32 - 1) + 5 } else { 10 * *cnt as u32 + 7 };
        input.push((Chrom { name: names[ci].into(), size }, vals));
    }
    let mut opts = WOpts::default_small();
    opts.items_per_slot = 1;
    opts.block_size = b;
    opts.compress = n % 2 == 0;
    opts.zoom = Zoom::Manual(vec![5]);
    opts.workers = 0;
    opts.multipass = (n + b as usize) % 2 == 0;
    let sink = MemSink::new();
    let res = wr::write_bw(sink.clone(), &input, &opts, None, &[]);
    if !matches!(res, CallResult::Ok) {
        out.viol("write_failed", wr::truncate(&res.short(), 60), J::s(res.short()));
        return out;
    }
    let bytes = Arc::new(sink.bytes());
    let mut f = Fnv::new();
    f.u64(n as u64);
    f.u64(b as u64);
    for s in &split {
        f.u64(*s as u64);
    }
    out.hash = f.hex();
    out.nontrivial = n >= 2;
    let run = wr::guard(|| -> Result<(), String> {
        let h = walk::parse_header(&bytes)?;
        let main = walk::walk_rtree(&bytes, h.le, h.full_index_off)?;
        if h.zooms.len() != 1 {
            return Err(format!("expected exactly one zoom level, file has {}", h.zooms.len()));
        }
        let zoom = walk::walk_rtree(&bytes, h.le, h.zooms[0].3)?;
        for (which, t) in [("main", &main), ("zoom", &zoom)] {
            for p in &t.problems {
                out.viol("index_structure", format!("{}:{}", which, p.split(' ').take(3).collect::<Vec<_>>().join("_")), J::s(p.clone()));
            }
            if t.leaves.len() != n {
                out.viol("index_leaf_count", which, J::obj().set("leaves", t.leaves.len().into()).set("n", n.into()));
            }
            // expected depth: smallest d with b^d >= n (d >= 1)
            let mut d = 1;
            let mut cap = b as usize;
            while cap < n {
                cap *= b as usize;
                d += 1;
            }
            if t.depth != d {
                out.viol("index_depth_unexpected", which, J::obj().set("depth", t.depth.into()).set("expected", d.into()));
            }
            out.tag(format!("levels={}", t.depth));
            let full = t.last_node_fill.iter().all(|f| *f == b as usize);
            out.tag(if full { "last_nodes_full" } else { "last_node_partial" });
            // leaves in file order with contiguous offsets
            for w in t.leaves.windows(2) {
                if w[0].off + w[0].size != w[1].off {
                    out.viol("leaves_not_contiguous_in_file_order", which, J::obj().set("a", w[0].off.into()).set("b", w[1].off.into()));
                    break;
                }
            }
        }
        let log = Arc::new(Mutex::new(Vec::new()));
        let mut rd = BigWigRead::open(LogCursor { data: bytes.clone(), pos: 0, log: log.clone() }).map_err(|e| e.to_string())?;
        let mut nq = 0u64;
        for (ci, (c, vals)) in input.iter().enumerate() {
            let mut pts: Vec<u32> = vec![0, c.size];
            for v in vals {
                for p in [v.start.saturating_sub(1), v.start, v.start + 1, v.end - 1, v.end, v.end + 1] {
                    if p <= c.size {
                        pts.push(p);
                    }
                }
            }
            pts.sort();
            pts.dedup();
            // for large n thin the quadratic set deterministically but keep every point as a start and an end
            let stride = if pts.len() > 120 { pts.len() / 120 + 1 } else { 1 };
            for (ia, &s) in pts.iter().enumerate() {
                for (ib, &e) in pts.iter().enumerate().skip(ia) {
                    if stride > 1 && (ia + ib) % stride != 0 && ib != ia && ib != ia + 1 && ib + 1 != pts.len() && ia != 0 {
                        continue;
                    }
                    nq += 1;
                    // (a) items through the public API
                    log.lock().unwrap().clear();
                    let got: Vec<Value> = rd.get_interval(&c.name, s, e).map_err(|e| e.to_string())?.collect::<Result<_, _>>().map_err(|e| e.to_string())?;
                    let fetched: Vec<(u64, u64)> = log.lock().unwrap().clone();
                    let want: Vec<Value> = crate::model::bw_query(vals, s, e);
                    if got != want {
                        out.viol(
                            "search_differs_from_linear_scan",
                            "main",
                            J::obj().set("chrom", ci.into()).set("q", J::A(vec![s.into(), e.into()])).set("n_got", got.len().into()).set("n_want", want.len().into()),
                        );
                    }
                    // (b) blocks the reader fetched = leaves whose span touches the query, in file order
                    let touching: Vec<&walk::Leaf> = main.leaves.iter().filter(|l| (ci as u32, s) <= (l.ec, l.eb) && (ci as u32, e) >= (l.sc, l.sb)).collect();
                    let fetched_blocks: Vec<u64> = fetched.iter().filter(|(o, _)| main.leaves.iter().any(|l| l.off == *o)).map(|(o, _)| *o).collect();
                    let want_blocks: Vec<u64> = touching.iter().map(|l| l.off).collect();
                    if fetched_blocks != want_blocks {
                        out.viol(
                            "blocks_fetched_differ_from_linear_scan",
                            if fetched_blocks.len() < want_blocks.len() { "main:fewer" } else if fetched_blocks.len() > want_blocks.len() { "main:more" } else { "main:order" },
                            J::obj().set("chrom", ci.into()).set("q", J::A(vec![s.into(), e.into()])).set("fetched", fetched_blocks.len().into()).set("want", want_blocks.len().into()),
                        );
                    }
                    // (c) the written tree itself: pruned descent == linear scan
                    let pruned = walk::pruned_search(&bytes, h.le, h.full_index_off, ci as u32, s, e)?;
                    if pruned.iter().map(|l| l.off).collect::<Vec<_>>() != want_blocks {
                        out.viol("written_tree_prunes_a_touching_leaf", "main", J::obj().set("chrom", ci.into()).set("q", J::A(vec![s.into(), e.into()])));
                    }
                    // zoom index
                    if s < e {
                        let zgot: Vec<(u32, u32)> = rd
                            .get_zoom_interval(&c.name, s, e, 5)
                            .map_err(|e| e.to_string())?
                            .map(|z| z.map(|z| (z.start, z.end)).map_err(|e| e.to_string()))
                            .collect::<Result<_, _>>()?;
                        let must: Vec<(u32, u32)> = vals.iter().filter(|v| crate::model::overlaps(v.start, v.end, s, e)).map(|v| (v.start, v.end)).collect();
                        let may: Vec<(u32, u32)> = vals.iter().filter(|v| v.end >= s && v.start <= e).map(|v| (v.start, v.end)).collect();
                        if must.iter().any(|m| !zgot.contains(m)) || zgot.iter().any(|g| !may.contains(g)) || zgot.windows(2).any(|w| w[0].0 >= w[1].0) {
                            out.viol("search_differs_from_linear_scan", "zoom", J::obj().set("chrom", ci.into()).set("q", J::A(vec![s.into(), e.into()])).set("n_got", zgot.len().into()).set("n_must", must.len().into()));
                        }
                        let zp = walk::pruned_search(&bytes, h.le, h.zooms[0].3, ci as u32, s, e)?;
                        let zt: Vec<u64> = zoom.leaves.iter().filter(|l| (ci as u32, s) <= (l.ec, l.eb) && (ci as u32, e) >= (l.sc, l.sb)).map(|l| l.off).collect();
                        if zp.iter().map(|l| l.off).collect::<Vec<_>>() != zt {
                            out.viol("written_tree_prunes_a_touching_leaf", "zoom", J::obj().set("chrom", ci.into()).set("q", J::A(vec![s.into(), e.into()])));
                        }
                    }
                }
            }
        }
        out.count("queries", nq);
        Ok(())
    });
    match run {
        Ok(Ok(())) => {}
        Ok(Err(e)) => out.viol("failed", wr::truncate(&e, 60), J::s(e)),
        Err(p) => out.viol("panicked", wr::panic_site(&p), J::A(p.into_iter().map(J::S).collect())),
    }
    if split.len() == 1 {
        overlapping_blocks(&mut out, n, b);
    }
    out
}

/// The same tree shape with OVERLAPPING block spans: a bigBed, items_per_slot = 1, whose first
/// entry covers everything ("long then short") and whose entry at n/2 reaches to the end as
/// well, so that the furthest end inside a node is not its last child's.
fn overlapping_blocks(out: &mut Outcome, n: usize, b: u32) {
    use bigtools::{BedEntry, BigBedRead};
    let span = 10 * n as u32 + 10;
    let mut entries: Vec<BedEntry> = (0..n as u32).map(|i| BedEntry { start: 10 * i, end: 10 * i + 5, rest: format!("e{}", i) }).collect();
    entries[0].end = span;
    if n > 3 {
        entries[n / 2].end = span - 3;
    }
    let input: BbInput = vec![(Chrom { name: "chrA".into(), size: span }, entries.clone())];
    let mut opts = WOpts::default_small();
    opts.items_per_slot = 1;
    opts.block_size = b;
    opts.compress = n % 2 == 1;
    opts.zoom = Zoom::Manual(vec![5]);
    opts.workers = 0;
    opts.multipass = (n + b as usize) % 2 == 1;
    let sink = MemSink::new();
    let res = wr::write_bb(sink.clone(), &input, &opts, None, None, &[]);
    if !matches!(res, CallResult::Ok) {
        out.viol("write_failed", "overlapping_blocks", J::s(res.short()));
        return;
    }
    let bytes = Arc::new(sink.bytes());
    let run = wr::guard(|| -> Result<(), String> {
        let h = walk::parse_header(&bytes)?;
        let main = walk::walk_rtree(&bytes, h.le, h.full_index_off)?;
        for p in &main.problems {
            out.viol("index_structure", format!("overlapping_blocks:{}", p.split(' ').take(3).collect::<Vec<_>>().join("_")), J::s(p.clone()));
        }
        if main.leaves.len() != n {
            out.viol("index_leaf_count", "overlapping_blocks", J::obj().set("leaves", main.leaves.len().into()).set("n", n.into()));
        }
        let log = Arc::new(Mutex::new(Vec::new()));
        let mut rd = BigBedRead::open(LogCursor { data: bytes.clone(), pos: 0, log: log.clone() }).map_err(|e| e.to_string())?;
        let mut pts: Vec<u32> = vec![0, span];
        for e in &entries {
            for p in [e.start.saturating_sub(1), e.start, e.start + 1, e.end - 1, e.end, e.end + 1] {
                if p <= span {
                    pts.push(p);
                }
            }
        }
        pts.sort();
        pts.dedup();
        let stride = if pts.len() > 100 { pts.len() / 100 + 1 } else { 1 };
        let mut nq = 0u64;
        for (ia, &s) in pts.iter().enumerate() {
            for (ib, &e) in pts.iter().enumerate().skip(ia + 1) {
                if stride > 1 && (ia + ib) % stride != 0 && ib != ia + 1 && ib + 1 != pts.len() && ia != 0 {
                    continue;
                }
                nq += 1;
                log.lock().unwrap().clear();
                let got: Vec<BedEntry> = rd.get_interval("chrA", s, e).map_err(|e| e.to_string())?.collect::<Result<_, _>>().map_err(|e| e.to_string())?;
                let fetched: Vec<u64> = log.lock().unwrap().iter().filter(|(o, _)| main.leaves.iter().any(|l| l.off == *o)).map(|(o, _)| *o).collect();
                let must: Vec<&BedEntry> = entries.iter().filter(|x| crate::model::overlaps(x.start, x.end, s, e)).collect();
                if must.iter().any(|m| !got.contains(m)) {
                    out.viol("search_differs_from_linear_scan", "overlapping_blocks:entry_missing", J::obj().set("q", J::A(vec![s.into(), e.into()])).set("n_got", got.len().into()).set("n_must", must.len().into()));
                }
                if got.iter().any(|g| g.end < s || g.start > e) || got.windows(2).any(|w| w[0].start > w[1].start) {
                    out.viol("search_differs_from_linear_scan", "overlapping_blocks:spurious_or_unordered", J::obj().set("q", J::A(vec![s.into(), e.into()])));
                }
                let want_blocks: Vec<u64> = main.leaves.iter().filter(|l| (0u32, s) <= (l.ec, l.eb) && (0u32, e) >= (l.sc, l.sb)).map(|l| l.off).collect();
                if fetched != want_blocks {
                    out.viol(
                        "blocks_fetched_differ_from_linear_scan",
                        if fetched.len() < want_blocks.len() { "overlapping_blocks:fewer" } else if fetched.len() > want_blocks.len() { "overlapping_blocks:more" } else { "overlapping_blocks:order" },
                        J::obj().set("q", J::A(vec![s.into(), e.into()])).set("fetched", fetched.len().into()).set("want", want_blocks.len().into()),
                    );
                }
                let pruned = walk::pruned_search(&bytes, h.le, h.full_index_off, 0, s, e)?;
                if pruned.iter().map(|l| l.off).collect::<Vec<_>>() != want_blocks {
                    out.viol("written_tree_prunes_a_touching_leaf", "overlapping_blocks", J::obj().set("q", J::A(vec![s.into(), e.into()])));
                }
            }
        }
        out.count("queries_overlapping_blocks", nq);
        Ok(())
    });
    match run {
        Ok(Ok(())) => {}
        Ok(Err(e)) => out.viol("failed", format!("overlapping_blocks:{}", wr::truncate(&e, 40)), J::s(e)),
        Err(p) => out.viol("panicked", format!("overlapping_blocks:{}", wr::panic_site(&p)), J::A(p.into_iter().map(J::S).collect())),
    }
}
