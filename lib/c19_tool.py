"""C19, tool part: bedtobigbed without --autosql stores a schema with 3 + (extra columns) fields and the header's
field count equals that; with --autosql the supplied text is stored verbatim with its declared count."""
import json
import os
import random
import subprocess

import build
import pyleg

BVH = "/verif/target/hooks/release/bvh"


def _readq(path, scratch, tag):
    q = os.path.join(scratch, "q_%s.txt" % tag)
    with open(q, "w") as f:
        f.write("FILE\t%s\nINFO\nAUTOSQL\nITEMCOUNT\n" % path)
    p = subprocess.run([BVH, "readq", "--arg", q], capture_output=True, text=True, timeout=60)
    res = {}
    for line in p.stdout.splitlines():
        j = json.loads(line)
        if j.get("flavour") == "plain":
            res[j["op"]] = j
    os.remove(q)
    return res


def legs(tier, seed, scratch):
    def run(leg):
        L = pyleg.PyLeg("c19-bedtobigbed", cmd="c19tool", seed=seed, tier=tier)
        tool = build.bin_path("bedtobigbed")
        cols = list(range(0, 41)) if tier != "quick" else [0, 1, 2, 3, 5, 8, 9, 10, 12, 13, 14, 20, 40]
        for n in cols:
            for mode in ("generated", "supplied", "supplied_crlf", "supplied_snake_case"):
                rng = random.Random("%s:%s:%s" % (seed, n, mode))
                d = os.path.join(scratch, "c19_%d_%s" % (n, mode))
                os.makedirs(d, exist_ok=True)
                words = ["x", "name", "0", "1000", "+", "-", ".", "12.5", "a,b,", "gü"]
                lines = []
                for i in range(5):
                    rest = "\t".join(rng.choice(words) for _ in range(n))
                    lines.append("chr1\t%d\t%d%s\n" % (i * 10, i * 10 + 7, ("\t" + rest) if n else ""))
                bed = os.path.join(d, "in.bed")
                open(bed, "w").write("".join(lines))
                sizes = os.path.join(d, "chrom.sizes")
                open(sizes, "w").write("chr1\t1000\n")
                outp = os.path.join(d, "out.bb")
                cmd = [tool, bed, sizes, outp]
                supplied = None
                if mode.startswith("supplied"):
                    supplied = "table mine%d\n\"My α schema\"\n(\n string chrom; \"c\"\n uint chromStart; \"s\"\n uint chromEnd; \"e\"\n%s)\n" % (
                        n, "".join(" lstring extra%d; \"x\"\n" % i for i in range(n)))
                    if mode == "supplied_snake_case":
                        # identifiers with underscores, as real-world schemas have them
                        supplied = supplied.replace("table mine", "table my_table").replace(" lstring extra", " lstring gene_name")
                    if mode == "supplied_crlf":
                        # a .as file saved with DOS line endings: same schema, same declared field count
                        supplied = supplied.replace("\n", "\r\n")
                    asf = os.path.join(d, "schema.as")
                    open(asf, "w", newline="").write(supplied)
                    cmd += ["--autosql", asf]
                if rng.random() < 0.5:
                    cmd += ["--single-pass"]
                viol = []
                desc = dict(extra_columns=n, mode=mode, cmd=" ".join(cmd[1:]), first_line=lines[0])
                try:
                    p = subprocess.run(cmd, capture_output=True, text=True, timeout=60)
                except subprocess.TimeoutExpired:
                    L.case(desc, violations=[("no_progress", "bedtobigbed", dict(cmd=cmd))], tags=[mode])
                    continue
                if p.returncode != 0 or not os.path.exists(outp):
                    viol.append(("conversion_failed", mode, dict(rc=p.returncode, stderr=p.stderr[-500:])))
                else:
                    r = _readq(outp, d, "x")
                    info = r.get(1, {})
                    asql = r.get(2, {})
                    if not info.get("ok") or not asql.get("ok"):
                        viol.append(("read_failed", mode, dict(info=info, autosql=asql)))
                    else:
                        fc = info["result"]["field_count"]
                        text = asql["result"] or ""
                        if fc != 3 + n:
                            viol.append(("header_field_count_wrong", mode + (":beyond_bed12" if n > 12 else ":within_bed12"), dict(field_count=fc, expected=3 + n)))
                        if mode.startswith("supplied"):
                            if text != supplied:
                                viol.append(("autosql_not_verbatim", mode, dict(got=text[:400], expected=supplied[:400])))
                        else:
                            declared = text.count(";")
                            if declared != 3 + n:
                                viol.append(("generated_schema_field_count_wrong", "beyond_bed12" if n > 12 else "within_bed12", dict(declared=declared, expected=3 + n, schema=text[:1500])))
                L.case(desc, nontrivial=True, tags=[mode], violations=viol, counts={"conversions": 1})
                for fn in os.listdir(d):
                    os.remove(os.path.join(d, fn))
                os.rmdir(d)
        return L.done()
    return [dict(name="c19-bedtobigbed", run=run)]
