"""C09: every file bigtools writes is well-formed for an independent decoder (pybbi/decode.py).

The harness emitter (`bvh c09emit`) writes one file per case plus a JSON sidecar holding exactly what went in;
this module decodes every file with the independent Python decoder and judges:
  * zero structural problems,
  * decoded records == sidecar input (bigWig values by f32 bit pattern, order included),
  * chromosome table == chromosomes that had data, ids 0..n-1 in input order, supplied sizes,
  * chromosome-tree keys bytewise sorted / searchable when the input was written with sort type ALL,
  * stored total summary and every zoom record == statistics recomputed from the decoded records.
"""
import glob
import hashlib
import json
import multiprocessing
import os
import subprocess
import sys
import time

sys.path.insert(0, "/verif")
sys.path.insert(0, "/verif/lib")

import pyleg  # noqa: E402
import runner  # noqa: E402
from pybbi import decode as D  # noqa: E402

QUICK_CASES = 2000
THOROUGH_CASES = 120000


def judge_file(side_path, delete=True):
    """Decode one emitted file and compare with its sidecar. Returns a plain dict (picklable)."""
    out = dict(case=None, desc={}, hash="", nontrivial=False, tags=[], counts={}, violations=[], inconclusive=None, notes=[])
    path = None
    try:
        with open(side_path, encoding="utf-8") as f:
            side = json.load(f)
        path = side["file"]
        out["case"] = side["case"]
        with open(path, "rb") as f:
            data = f.read()
    except Exception as e:  # our own machinery, not bigtools
        out["inconclusive"] = "HARNESS cannot load case: %s: %s" % (type(e).__name__, e)
        return out
    finally:
        if delete:
            for p in (side_path, path):
                try:
                    if p:
                        os.unlink(p)
                except OSError:
                    pass
    try:
        _judge(side, data, out)
    except Exception as e:
        import traceback
        out["violations"] = []
        out["inconclusive"] = "HARNESS judge raised %s: %s | %s" % (type(e).__name__, e, traceback.format_exc(limit=3)[-400:])
    return out


def _judge(side, data, out):
    kind = side["kind"]
    opts = side.get("opts", {})
    viols = out["violations"]
    seen = set()

    def viol(cls, site, detail):
        # one (class, site) per file is enough; keep the first detail
        if (cls, site) not in seen:
            seen.add((cls, site))
            viols.append((cls, site, detail if isinstance(detail, str) else json.dumps(detail, default=str)[:1500]))

    out["hash"] = hashlib.sha1(data).hexdigest()[:24]
    d = D.decode(data)
    # The bigBed generator deliberately supplies entries that reach past the chromosome end and bigtools writes what it
    # is given; whether the writer should refuse such input is not this property. The decoder's complaint about exactly
    # those items is therefore a declared don't-care (tagged), everything else still counts.
    input_beyond = any(it[1] > c["size"] for c in side["chroms"] for it in c.get("values" if kind == "bigwig" else "entries", []))
    for (cls, site, detail) in d.problems:
        if cls == "item_beyond_chromosome_end" and input_beyond:
            continue
        if cls == "decoder_exception":
            # the decoder must not raise; if it did, that is our bug until shown otherwise
            out["inconclusive"] = "HARNESS decoder exception: %s" % detail
            return
        viol(cls, site, detail)
    with_data = [c for c in side["chroms"] if c.get("values" if kind == "bigwig" else "entries")]
    n_items = sum(len(c.get("values" if kind == "bigwig" else "entries")) for c in with_data)
    out["desc"] = dict(file_kind=kind, opts=opts, n_items=n_items, n_chroms=len(with_data), bytes=len(data))
    if d.kind is None:
        out["tags"] = [kind, "undecodable"]
        return
    if d.kind != kind:
        viol("file_kind_wrong", "header", "file is %s, input was %s" % (d.kind, kind))
    if d.version != 4:
        viol("version_not_4", "header", "version %s" % d.version)
    # --- chromosome table
    want_chroms = [(c["chrom"], i, c["size"]) for i, c in enumerate(with_data)]
    got_chroms = d.chroms_by_id()
    if got_chroms != want_chroms:
        viol("chrom_table_differs_from_input", "chrom_tree", dict(got=got_chroms[:12], want=want_chroms[:12]))
    if opts.get("sort_all"):
        if d.chrom_tree.get("sorted") is False:
            viol("chrom_keys_not_sorted", "chrom_tree:sort_all", dict(keys=[c[0] for c in d.chroms][:20]))
        if d.chrom_tree.get("searchable") is False:
            viol("chrom_tree_not_searchable", "chrom_tree:sort_all", dict(keys=[c[0] for c in d.chroms][:20]))
    # --- records
    if kind == "bigwig":
        for i, c in enumerate(with_data):
            want = [(v[0], v[1], v[3]) for v in c["values"]]
            got = [(s, e, bits) for (s, e, _, bits) in d.values.get(i, [])]
            if got != want:
                viol("decoded_values_differ_from_input", "bigwig", _first_diff(got, want, c["chrom"]))
                break
        extra = sorted(set(d.values) - set(range(len(with_data))))
        if extra:
            viol("values_on_unexpected_chromosome_id", "bigwig", dict(ids=extra))
    else:
        for i, c in enumerate(with_data):
            want = [(e[0], e[1], e[2]) for e in c["entries"]]
            got = d.entries.get(i, [])
            if got != want:
                viol("decoded_entries_differ_from_input", "bigbed", _first_diff(got, want, c["chrom"]))
                break
        extra = sorted(set(d.entries) - set(range(len(with_data))))
        if extra:
            viol("entries_on_unexpected_chromosome_id", "bigbed", dict(ids=extra))
        if side.get("autosql") is not None and d.autosql != side["autosql"]:
            viol("autosql_differs_from_input", "bigbed", dict(got=d.autosql, want=side["autosql"]))
    # --- items per block as requested
    ips = opts.get("ips")
    if isinstance(ips, int) and d.max_items_per_block > ips:
        viol("block_holds_more_than_requested_items_per_slot", "main_data", dict(max_items=d.max_items_per_block, items_per_slot=ips))
    # --- statistics
    for (cls, site, detail) in D.recompute_stats(d):
        viol(cls, site, detail)
    # --- evidence
    zoom_records = sum(len(z["records"]) for z in d.zooms)
    out["nontrivial"] = d.block_count >= 2 or len(d.zooms) >= 1
    depth = d.main_index["depth"] if d.main_index else 0
    out["tags"] = [kind, "compressed" if d.uncompress_buf_size else "raw", "zoom_levels:%d" % len(d.zooms), "rtree_depth:%d" % depth,
                   "sort_all" if opts.get("sort_all") else "sort_start"]
    if d.has_zero_length:
        out["tags"].append("zero_length_items:minmax_dont_care")
    if input_beyond:
        out["tags"].append("input_items_beyond_chrom_end:dont_care")
    if any(z["count_word"] for z in d.zooms):
        out["tags"].append("zoom_count_word_present")
    out["counts"] = dict(blocks=d.block_count, zoom_records=zoom_records, zoom_blocks=sum(z["blocks"] for z in d.zooms), items=n_items,
                         rtree_nodes=(len(d.main_index["nodes"]) if d.main_index else 0) + sum(len(z["index"]["nodes"]) for z in d.zooms if z["index"]))
    out["notes"] = d.notes[:6]


def _first_diff(got, want, chrom):
    n = min(len(got), len(want))
    for i in range(n):
        if got[i] != want[i]:
            return dict(chrom=chrom, index=i, got=got[i], want=want[i], n_got=len(got), n_want=len(want))
    return dict(chrom=chrom, index=n, got=got[n] if len(got) > n else None, want=want[n] if len(want) > n else None, n_got=len(got), n_want=len(want))


def _run(tier, seed, scratch):
    n = QUICK_CASES if tier == "quick" else THOROUGH_CASES
    leg = pyleg.PyLeg("c09-decode", cmd="c09", seed=seed, tier=tier)
    os.makedirs(scratch, exist_ok=True)
    emit = runner.run_leg(dict(cmd="c09emit", cases=n, seed=seed, tier=tier, scratch=scratch, name="c09emit"))
    res = leg.res
    res.blocked += emit.blocked
    for k, v in emit.tags.items():
        if k.startswith("blocked:"):
            res.tags[k] += v
    res.harness_errors += emit.harness_errors
    res.inconclusive += [(c, "emitter: %s" % why) for (c, why) in emit.inconclusive]
    # a writer that panics / hangs / dies is C01/C02/C13's finding; here the case simply produced no file
    for v in emit.violations:
        res.blocked += 1
        res.tags["blocked:emitter_%s" % v["sig"].split(":")[0]] += 1
    res.evaluations += emit.blocked + len(emit.inconclusive) + len(emit.violations)
    sides = sorted(glob.glob(os.path.join(scratch, "c09_%d_*.json" % seed)))
    t1 = time.time()
    if sides:
        with multiprocessing.Pool(min(16, runner.NCPU)) as pool:
            results = pool.map_async(judge_file, sides, chunksize=8)
            try:
                judged = results.get(timeout=1800)
            except multiprocessing.TimeoutError:
                pool.terminate()
                leg.error("decoding pool did not finish within 1800 s")
                judged = []
    else:
        judged = []
    missing = emit.held - len(sides)
    if missing > 0:
        leg.error("%d cases reported written by the emitter have no sidecar" % missing)
    for j in sorted(judged, key=lambda x: (x["case"] is None, x["case"])):
        leg.case(j["desc"], hash=j["hash"] or None, nontrivial=j["nontrivial"], tags=j["tags"], counts=j["counts"],
                 violations=j["violations"], inconclusive=j["inconclusive"],
                 replay=dict(kind="c09", seed=seed, case=j["case"], tier=tier), case_id=j["case"])
    # leftovers (files of cases without sidecar)
    for p in glob.glob(os.path.join(scratch, "c09_%d_*" % seed)):
        try:
            os.unlink(p)
        except OSError:
            pass
    return leg.done(extra=dict(emit_wall_s=round(emit.wall_s, 2), decode_wall_s=round(time.time() - t1, 2)))


def legs(tier, seed, scratch):
    return [dict(name="c09-decode", run=lambda leg: _run(tier, seed, scratch))]


def replay(j, scratch):
    rp = j["replay"]
    seed, case, tier = rp["seed"], rp["case"], rp.get("tier", "quick")
    os.makedirs(scratch, exist_ok=True)
    cmd = [runner.HARNESS_BIN["release"], "c09emit", "--seed", str(seed), "--only", str(case), "--tier", tier, "--scratch", scratch]
    env = dict(os.environ, RUST_BACKTRACE="0")
    try:
        p = subprocess.run(cmd, capture_output=True, text=True, timeout=120, env=env)
    except subprocess.TimeoutExpired:
        print("emitter did not finish within 120 s: inconclusive")
        return 0
    side = os.path.join(scratch, "c09_%d_%d.json" % (seed, case))
    if not os.path.exists(side):
        print("emitter wrote no sidecar for case %d (seed %d):\n%s" % (case, seed, p.stdout[-600:]))
        return 0
    r = judge_file(side, delete=False)
    print("replay of c09 case %d (seed %d): file %s" % (case, seed, json.load(open(side))["file"]))
    if r["inconclusive"]:
        print("inconclusive:", r["inconclusive"])
        return 0
    sigs = []
    for (cls, site, detail) in r["violations"]:
        sig = cls + (":" + site if site else "")
        sigs.append(sig)
        print("  violation:", sig)
        print("  detail:", str(detail)[:2000])
    if j.get("signature") in sigs:
        print("VIOLATION property=C09 signature=%s reproduced" % j["signature"])
        return 1
    print("signature %s did not reproduce" % j.get("signature"))
    return 0


try:
    import props  # noqa: E402
    props.REPLAYERS["c09"] = replay
except Exception:  # import order must not matter
    pass
