//! C14: no partial file passes for a complete one; no I/O failure is reported as success.
//! Crash points = every prefix of the operation log that reached the sink; faults = one injected
//! failure at every operation index (and "from k onwards").
use crate::cases::rt::{gen_bb_case, gen_bw_case, BbGenCfg, BwGenCfg};
use crate::gen::*;
use crate::proto::{Ctx, Outcome, Tier};
use crate::sink::{image_after, Op, RecSink};
use crate::util::{Rng, J};
use crate::walk;
use crate::wr::{self, CallResult};
use bigtools::{BedEntry, BigBedRead, BigWigRead, Value};
use std::io::Cursor;

#[derive(Clone)]
struct Layout {
    regions: Vec<(u64, u64, String)>,
}
impl Layout {
    fn of(bytes: &[u8]) -> Option<Layout> {
        let h = walk::parse_header(bytes).ok()?;
        let mut r = vec![];
        let hdr_end = 64 + 24 * 10u64;
        r.push((0, hdr_end, "header".to_string()));
        if h.autosql_off > 0 {
            r.push((h.autosql_off, h.total_summary_off, "autosql".into()));
        }
        r.push((h.total_summary_off, h.total_summary_off + 40, "summary".into()));
        r.push((h.full_data_off, h.full_data_off + 8, "data_count".into()));
        r.push((h.full_data_off + 8, h.chrom_tree_off, "data".into()));
        r.push((h.chrom_tree_off, h.full_index_off, "chrom_tree".into()));
        let mut idx_end = bytes.len() as u64 - 4;
        for (i, z) in h.zooms.iter().enumerate() {
            if i == 0 {
                idx_end = z.2;
            }
            let next = h.zooms.get(i + 1).map(|n| n.2).unwrap_or(bytes.len() as u64 - 4);
            r.push((z.2, z.3, "zoom_data".to_string()));
            r.push((z.3, next, "zoom_index".to_string()));
        }
        r.push((h.full_index_off, idx_end, "index".into()));
        r.push((bytes.len() as u64 - 4, bytes.len() as u64, "trailing_magic".into()));
        Some(Layout { regions: r })
    }
    fn region(&self, pos: u64) -> String {
        for (a, b, n) in &self.regions {
            if pos >= *a && pos < *b {
                return n.clone();
            }
        }
        "beyond_known_regions".into()
    }
}

enum Input {
    Bw(BwInput),
    Bb(BbInput),
}

fn run_write(sink: RecSink, inp: &Input, o: &WOpts, scratch: &std::path::Path) -> CallResult {
    match inp {
        Input::Bw(i) => wr::write_bw(sink, i, o, Some(scratch), &[]),
        Input::Bb(i) => wr::write_bb(sink, i, o, None, Some(scratch), &[]),
    }
}

/// What the complete file serves (the reference for "complete and correct").
struct Served {
    chroms: Vec<(String, u32)>,
    bw: Vec<Vec<Value>>,
    bb: Vec<Vec<BedEntry>>,
    zooms: Vec<(u32, Vec<Vec<(u32, u32, u64)>>)>,
}

fn read_all(bytes: &[u8], is_bw: bool) -> Result<Served, String> {
    let mut s = Served { chroms: vec![], bw: vec![], bb: vec![], zooms: vec![] };
    if is_bw {
        let mut rd = BigWigRead::open(Cursor::new(bytes.to_vec())).map_err(|e| format!("open: {}", e))?;
        s.chroms = rd.chroms().iter().map(|c| (c.name.clone(), c.length)).collect();
        for (n, l) in s.chroms.clone() {
            s.bw.push(rd.get_interval(&n, 0, l).map_err(|e| e.to_string())?.collect::<Result<_, _>>().map_err(|e| e.to_string())?);
        }
        let levels: Vec<u32> = rd.info().zoom_headers.iter().map(|z| z.reduction_level).collect();
        for lv in levels {
            let mut per = vec![];
            for (n, l) in s.chroms.clone() {
                per.push(
                    rd.get_zoom_interval(&n, 0, l, lv)
                        .map_err(|e| e.to_string())?
                        .map(|z| z.map(|z| (z.start, z.end, z.summary.bases_covered)).map_err(|e| e.to_string()))
                        .collect::<Result<_, _>>()?,
                );
            }
            s.zooms.push((lv, per));
        }
    } else {
        let mut rd = BigBedRead::open(Cursor::new(bytes.to_vec())).map_err(|e| format!("open: {}", e))?;
        s.chroms = rd.chroms().iter().map(|c| (c.name.clone(), c.length)).collect();
        for (n, _l) in s.chroms.clone() {
            s.bb.push(rd.get_interval(&n, 0, u32::MAX).map_err(|e| e.to_string())?.collect::<Result<_, _>>().map_err(|e| e.to_string())?);
        }
        let levels: Vec<u32> = rd.info().zoom_headers.iter().map(|z| z.reduction_level).collect();
        for lv in levels {
            let mut per = vec![];
            for (n, _l) in s.chroms.clone() {
                per.push(
                    rd.get_zoom_interval(&n, 0, u32::MAX, lv)
                        .map_err(|e| e.to_string())?
                        .map(|z| z.map(|z| (z.start, z.end, z.summary.bases_covered)).map_err(|e| e.to_string()))
                        .collect::<Result<_, _>>()?,
                );
            }
            s.zooms.push((lv, per));
        }
    }
    Ok(s)
}

pub fn c14(ctx: &Ctx, begin: &mut dyn FnMut(J)) -> Outcome {
    let mut r = Rng::derive(ctx.seed, 0xC14, ctx.case);
    let is_bw = ctx.case % 2 == 0;
    let mut out = Outcome::new();
    let (inp, mut opts, hash) = if is_bw {
        let mut c = gen_bw_case(&mut r, &BwGenCfg { allow_zero_len: false, huge_ok: false, small_slots: true, allow_unsorted_chroms: false, max_chroms: 4, force_exact: true });
        for (_, v) in c.input.iter_mut() {
            v.truncate(12);
        }
        (Input::Bw(c.input), c.opts, c.hash)
    } else {
        let mut c = gen_bb_case(&mut r, &BbGenCfg { allow_zero_len: false, no_zero_zero: true, small_slots: true, max_chroms: 4, ncols: Some(1) });
        for (_, v) in c.input.iter_mut() {
            v.truncate(12);
        }
        c.input.sort_by(|a, b| a.0.name.as_bytes().cmp(b.0.name.as_bytes()));
        (Input::Bb(c.input), c.opts, c.hash)
    };
    opts.sort_all = true;
    opts.source = Source::Serial;
    if let Zoom::Auto { max, .. } = &mut opts.zoom {
        *max = (*max).min(3);
    }
    // bulk class (2 cases in 16): one chromosome with 12 000 items, so that data and the first two zoom levels are
    // each larger than any 8 KiB buffer between the writer and the sink (copies of staged sections then reach the
    // sink as direct writes, not only at the final flush)
    let bulk = matches!(ctx.case % 16, 6 | 15);
    let (inp, hash) = if bulk {
        const N: u32 = 12_000;
        match inp {
            Input::Bw(mut i) => {
                // one chromosome with everything, or two with half each (the second one's sections are then staged
                // while the first still owns the destination and reach it through the mid-stream hand-off copy)
                i.truncate(if ctx.case % 32 < 16 { 1 } else { 2 });
                let per = N / i.len() as u32;
                for c in i.iter_mut() {
                    c.0.size = c.0.size.max(per * 4 + 100);
                    c.1 = (0..per).map(|k| Value { start: k * 4, end: k * 4 + 3, value: [1.0f32, 2.0, 0.5, 4.0][(k % 4) as usize] }).collect();
                }
                (Input::Bw(i), format!("{}:bulk", hash))
            }
            Input::Bb(mut i) => {
                i.truncate(if ctx.case % 32 < 16 { 1 } else { 2 });
                let per = N / i.len() as u32;
                for c in i.iter_mut() {
                    c.0.size = c.0.size.max(per * 4 + 100);
                    c.1 = (0..per).map(|k| BedEntry { start: k * 4, end: k * 4 + 6, rest: "x".to_string() }).collect();
                }
                (Input::Bb(i), format!("{}:bulk", hash))
            }
        }
    } else {
        (inp, hash)
    };
    if bulk {
        opts.zoom = Zoom::Manual(vec![40, 160, 640]);
        opts.items_per_slot = *r.pick(&[64u32, 256, 1024]);
        opts.block_size = opts.block_size.max(4);
        opts.multipass = r.chance(2, 3);
        if ctx.case % 32 < 16 {
            opts.workers = 0; // one schedule is enough for the one-chromosome shape
        } else {
            opts.workers = opts.workers.max(2);
            opts.inmemory = false; // staged sections of the second chromosome go through a temporary file
        }
        out.tag("bulk_input");
    }
    begin(
        J::obj().set("kind", if is_bw { "bigwig" } else { "bigbed" }.into()).set("opts", opts.to_json()).set(
            "input",
            match &inp {
                Input::Bw(i) => bw_input_json(i),
                Input::Bb(i) => bb_input_json(i),
            },
        ),
    );
    out.hash = hash;
    out.nontrivial = true;
    let kind = if is_bw { "bigwig" } else { "bigbed" };
    // 1. healthy run(s): the operation stream is schedule dependent, so record it on the
    // deterministic current-thread runtime and on the generated multi-thread configuration
    let mut schedules = vec![0usize];
    if opts.workers != 0 {
        schedules.push(opts.workers);
    }
    for &workers in &schedules {
        let mut o = opts.clone();
        o.workers = workers;
        let sink = RecSink::new(None, false);
        let res = run_write(sink.clone(), &inp, &o, &ctx.scratch);
        if !res.is_ok() {
            out.inconclusive = Some(format!("blocked_by:C01 healthy write failed: {}", res.short()));
            return out;
        }
        let (ops, full): (Vec<Op>, Vec<u8>) = {
            let g = sink.0.lock().unwrap();
            (g.ops.clone(), g.file.data.clone())
        };
        let Some(layout) = Layout::of(&full) else {
            out.inconclusive = Some("blocked_by:C09 complete file does not parse".into());
            return out;
        };
        let reference = match wr::guard(|| read_all(&full, is_bw)) {
            Ok(Ok(s)) => s,
            other => {
                out.inconclusive = Some(format!("blocked_by:C01 complete file does not read back: {:?}", other.map(|r| r.map(|_| ()))));
                return out;
            }
        };
        out.count("operations_in_healthy_runs", ops.len() as u64);
        for op in &ops {
            out.count(&format!("ops_{}", op.kind()), 1);
        }
        // 2. crash points: every prefix
        let mut accepted_prefixes = 0u64;
        for k in 0..=ops.len() {
            let img = image_after(&ops, k);
            out.count("crash_points", 1);
            let got = wr::guard(|| read_all(&img, is_bw));
            let served = match got {
                Ok(Ok(s)) => s,
                _ => continue, // rejected (error or panic): fine
            };
            accepted_prefixes += 1;
            // everything advertised must be complete and correct
            let region = if k < ops.len() {
                match &ops[k] {
                    Op::Write { pos, .. } => layout.region(*pos),
                    _ => "at_seek_or_flush".to_string(),
                }
            } else {
                "complete".to_string()
            };
            let mut bad: Option<String> = None;
            if served.chroms != reference.chroms {
                bad = Some("chromosome_table_differs".into());
            } else if served.bw != reference.bw || served.bb != reference.bb {
                bad = Some("records_missing_or_different".into());
            } else if served.zooms.len() != reference.zooms.len() && k == ops.len() {
                bad = Some("zoom_levels_differ".into());
            } else {
                for (lv, per) in &served.zooms {
                    match reference.zooms.iter().find(|z| z.0 == *lv) {
                        Some((_, rper)) if rper == per => {}
                        _ => bad = Some("advertised_zoom_level_incomplete_or_different".into()),
                    }
                }
            }
            if let Some(b) = bad {
                out.viol(
                    "partial_file_passes_for_complete",
                    format!("{}:{}:next_op_in_{}", kind, b, region),
                    J::obj().set("prefix_ops", k.into()).set("total_ops", ops.len().into()).set("workers", workers.into()).set("image_len", img.len().into()),
                );
            }
        }
        out.count("crash_points_accepted_as_complete", accepted_prefixes);
        if accepted_prefixes == 0 {
            out.viol("complete_file_not_accepted", kind, J::Null);
        }
        // 3. fault injection at every operation index (whatever kind arrives there), plus from-k-onwards
        let margin = 3;
        for k in 0..ops.len() + margin {
            for fail_from in [false, true] {
                if fail_from && ctx.tier == Tier::Quick && k % 3 != 0 {
                    continue;
                }
                let sink = RecSink::new(Some(k), fail_from);
                let res = run_write(sink.clone(), &inp, &o, &ctx.scratch);
                let g = sink.0.lock().unwrap();
                if g.failures_delivered == 0 {
                    out.count("fault_runs_where_the_op_index_was_never_reached", 1);
                    continue;
                }
                out.count("fault_runs_delivered", 1);
                let kind_failed = g.failed_kinds[0];
                out.count(&format!("faults_{}", kind_failed), 1);
                let pos = match g.ops.get(k) {
                    Some(Op::Write { pos, .. }) => Some(*pos),
                    Some(Op::Seek { result, .. }) => Some(*result),
                    _ => None,
                };
                let region = pos.map(|p| layout.region(p)).unwrap_or_else(|| "flush".into());
                match res {
                    CallResult::Ok => {
                        let last = g.ops_after_failure == 0;
                        out.viol(
                            "io_failure_reported_as_success",
                            format!("{}:{}:{}{}", kind, kind_failed, region, if last { ":was_the_last_operation" } else { "" }),
                            J::obj()
                                .set("failed_op_index", k.into())
                                .set("ops_in_healthy_run", ops.len().into())
                                .set("fail_from_k_onwards", fail_from.into())
                                .set("ops_after_failure", g.ops_after_failure.into())
                                .set("workers", workers.into()),
                        );
                    }
                    CallResult::Err(_) => out.count("fault_reported_as_error", 1),
                    CallResult::Panic(_) => out.count("fault_reported_as_panic", 1),
                }
            }
        }
    }
    out
}
