//! C18: slicing a text input for parallel work (index_chroms, FileView, chunker).
use crate::gen::*;
use crate::proto::{Ctx, Outcome, Tier};
use crate::sink::MemSink;
use crate::util::{digest, Fnv, J};
use crate::wr::{self, CallResult};
use bigtools::bed::bedparser::parse_bedgraph;
use bigtools::bed::indexer::index_chroms;
use bigtools::beddata::BedParserParallelStreamingIterator;
use bigtools::utils::file_view::FileView;
use bigtools::utils::split_file_into_chunks_by_size;
use bigtools::BigWigWrite;
use std::collections::HashMap;
use std::io::{Read, Seek, SeekFrom};
use std::path::Path;

const RUNS: &[usize] = &[1, 2, 3, 5, 9];

/// All run-length vectors {1,2,3,5,9}^{1..4}
pub fn run_vectors() -> Vec<Vec<usize>> {
    let mut v = vec![];
    for m in 1..=4usize {
        let mut idx = vec![0usize; m];
        loop {
            v.push(idx.iter().map(|i| RUNS[*i]).collect());
            let mut p = 0;
            loop {
                if p == m {
                    break;
                }
                idx[p] += 1;
                if idx[p] < RUNS.len() {
                    break;
                }
                idx[p] = 0;
                p += 1;
            }
            if p == m {
                break;
            }
        }
    }
    v
}

const NAMES_ASCII: &[&str] = &["chr1", "chr10", "chr2", "chrX"];
/// grouped, but the runs are not in name order (legal with sort type START; the index must still be in file order)
const NAMES_REV: &[&str] = &["chrX", "chr2", "chr10", "chr1"];
const NAMES_MB: &[&str] = &["a", "chr\u{e9}", "\u{e9}", "\u{3b1}\u{3b2}\u{3b3}"];

/// Build a grouped bedGraph text. `long_at`: index of the line that is made very long
/// (bedGraph allows extra whitespace-free columns only in BED; here the value gets many digits
/// and the line a long chromosome-independent tail through a 4th column with a long float).
fn build_text(runs: &[usize], names: &[&str], long_at: Option<usize>, mixed: bool, final_newline: bool) -> (String, Vec<(u64, String)>, usize) {
    build_text_l(runs, names, long_at, 34, mixed, final_newline)
}

/// `long_reps` * 9 digits in the long line's value: 34 gives ~310 bytes, 1000 / 2400 give lines longer than the
/// 8 KiB a default BufReader holds (so "skip to the end of this line" needs more than one buffer fill).
fn build_text_l(runs: &[usize], names: &[&str], long_at: Option<usize>, long_reps: usize, mixed: bool, final_newline: bool) -> (String, Vec<(u64, String)>, usize) {
    let mut text = String::new();
    let mut truth = vec![];
    let mut line_no = 0usize;
    for (ci, n) in runs.iter().enumerate() {
        for i in 0..*n {
            if i == 0 {
                truth.push((text.len() as u64, names[ci].to_string()));
            }
            let start = i as u32 * 10;
            let val = if long_at == Some(line_no) {
                // a value with ~300 digits is still a valid f32 text
                format!("0.{}", "123456789".repeat(long_reps))
            } else if mixed && (line_no * 7 + ci) % 3 == 0 {
                format!("{}.{}", line_no, "5".repeat((line_no * 13) % 40 + 1))
            } else {
                "1.5".to_string()
            };
            text.push_str(&format!("{}\t{}\t{}\t{}\n", names[ci], start, start + 5, val));
            line_no += 1;
        }
    }
    if !final_newline {
        text.pop();
    }
    (text, truth, line_no)
}

fn sizes_for(names: &[&str]) -> HashMap<String, u32> {
    names.iter().map(|n| (n.to_string(), 1000u32)).collect()
}

fn parallel_write(path: &Path, idx: Vec<(u64, String)>, sizes: HashMap<String, u32>, allow_ooo: bool) -> (CallResult, Vec<u8>) {
    let sink = MemSink::new();
    let s2 = sink.clone();
    let p = path.to_path_buf();
    let r = wr::guard(move || {
        let rt = wr::make_runtime(2);
        let mut w = BigWigWrite::new(s2, sizes);
        w.options.input_sort_type = if allow_ooo { bigtools::InputSortType::START } else { bigtools::InputSortType::ALL };
        w.options.inmemory = true;
        w.write(BedParserParallelStreamingIterator::new(idx, allow_ooo, p, parse_bedgraph), rt).map_err(|e| e.to_string())
    });
    let cr = match r {
        Ok(Ok(())) => CallResult::Ok,
        Ok(Err(e)) => CallResult::Err(e),
        Err(p) => CallResult::Panic(p),
    };
    (cr, sink.bytes())
}

fn serial_write(path: &Path, sizes: HashMap<String, u32>, allow_ooo: bool) -> (CallResult, Vec<u8>) {
    let sink = MemSink::new();
    let s2 = sink.clone();
    let p = path.to_path_buf();
    let r = wr::guard(move || {
        let rt = wr::make_runtime(2);
        let mut w = BigWigWrite::new(s2, sizes);
        w.options.inmemory = true;
        w.options.input_sort_type = if allow_ooo { bigtools::InputSortType::START } else { bigtools::InputSortType::ALL };
        let f = std::fs::File::open(&p).map_err(|e| e.to_string())?;
        w.write(bigtools::beddata::BedParserStreamingIterator::from_bedgraph_file(f, allow_ooo), rt).map_err(|e| e.to_string())
    });
    let cr = match r {
        Ok(Ok(())) => CallResult::Ok,
        Ok(Err(e)) => CallResult::Err(e),
        Err(p) => CallResult::Panic(p),
    };
    (cr, sink.bytes())
}

pub fn c18i(ctx: &Ctx, begin: &mut dyn FnMut(J)) -> Outcome {
    let all = run_vectors();
    let mut out = Outcome::new();
    let Some(runs) = all.get(ctx.case as usize).cloned() else {
        begin(J::Null);
        out.inconclusive = Some("blocked_by:none beyond enumeration".into());
        return out;
    };
    begin(J::obj().set("run_lengths", J::A(runs.iter().map(|x| J::U(*x as u64)).collect())));
    let mut f = Fnv::new();
    for x in &runs {
        f.u64(*x as u64);
    }
    out.hash = f.hex();
    out.nontrivial = runs.len() >= 2;
    let path = wr::scratch_file(&ctx.scratch, "bedGraph");
    let total_lines: usize = runs.iter().sum();
    let mut files = 0u64;
    for (nameset, names) in [("ascii", NAMES_ASCII), ("multibyte", NAMES_MB), ("ascii_runs_not_in_name_order", NAMES_REV)] {
        let mut patterns: Vec<(Option<usize>, usize, bool, String)> = vec![(None, 34, false, "uniform".into()), (None, 34, true, "mixed".into())];
        for l in 0..total_lines {
            // classify where the long line sits
            let mut acc = 0;
            let mut where_ = "middle_of_run";
            for n in &runs {
                if l == acc {
                    where_ = if *n == 1 { "only_line_of_run" } else { "first_line_of_run" };
                } else if l == acc + n - 1 {
                    where_ = "last_line_of_run";
                }
                acc += n;
            }
            patterns.push((Some(l), 34, false, format!("long_line:{}", where_)));
            if l == 0 || l == total_lines / 2 || l + 1 == total_lines {
                patterns.push((Some(l), if l % 2 == 0 { 1000 } else { 2400 }, false, format!("line_over_8KiB:{}", where_)));
            }
        }
        for (long_at, reps, mixed, pname) in patterns {
            for final_newline in [true, false] {
                let (text, truth, _) = build_text_l(&runs, names, long_at, reps, mixed, final_newline);
                if std::fs::write(&path, &text).is_err() {
                    out.inconclusive = Some("HARNESS cannot write scratch file".into());
                    return out;
                }
                files += 1;
                let res = wr::guard(|| index_chroms(std::fs::File::open(&path).unwrap()));
                let last_run_single = *runs.last().unwrap() == 1;
                let site = format!("{}:{}:{}", nameset, pname, if final_newline { "final_newline" } else { "no_final_newline" });
                let detail = |got: &str| {
                    J::obj()
                        .set("got", J::s(got))
                        .set("truth", J::A(truth.iter().map(|(o, n)| J::A(vec![(*o).into(), J::s(n.clone())])).collect()))
                        .set("text", J::s(wr::truncate(&text, 700)))
                        .set("last_run_has_one_line", last_run_single.into())
                };
                match res {
                    Ok(Ok(Some(idx))) => {
                        if idx != truth {
                            let class = if idx.len() < truth.len() {
                                "index_misses_a_chromosome_run"
                            } else if idx.len() > truth.len() {
                                "index_has_extra_entries"
                            } else {
                                "index_offset_wrong"
                            };
                            out.viol(class, site.clone(), detail(&format!("{:?}", idx)));
                        } else if long_at.is_none() || long_at == Some(0) {
                            // end-to-end: parallel source fed with the returned index == serial source
                            let sizes = sizes_for(names);
                            let ooo = nameset == "ascii_runs_not_in_name_order";
                            let (pr, pb) = parallel_write(&path, idx, sizes.clone(), ooo);
                            let (sr, sb) = serial_write(&path, sizes, ooo);
                            out.count("end_to_end_comparisons", 1);
                            match (&pr, &sr) {
                                (CallResult::Ok, CallResult::Ok) => {
                                    if digest(&pb) != digest(&sb) {
                                        out.viol("parallel_output_differs_from_serial", site.clone(), detail("digest mismatch"));
                                    }
                                }
                                (a, b) => out.viol("parallel_or_serial_write_failed_on_grouped_file", site.clone(), detail(&format!("parallel {} / serial {}", a.short(), b.short()))),
                            }
                        }
                    }
                    Ok(Ok(None)) => out.viol("grouped_file_reported_as_not_grouped", site, detail("None")),
                    Ok(Err(e)) => out.viol("index_error_on_valid_file", format!("{}:{}", site, if e.to_string().contains("UTF-8") { "utf8" } else { "other" }), detail(&e.to_string())),
                    Err(p) => out.viol("index_panicked", format!("{}:{}", site, wr::panic_site(&p)), detail(&p.join("|"))),
                }
            }
        }
    }
    // ungrouped variants: a chromosome reappears (at the end; strictly inside another run)
    if runs.len() >= 2 {
        let mut variants: Vec<(Vec<usize>, Vec<&str>, &str)> = vec![];
        let mut names_end: Vec<&str> = NAMES_ASCII[..runs.len()].to_vec();
        *names_end.last_mut().unwrap() = NAMES_ASCII[0];
        if runs.len() >= 3 {
            variants.push((runs.clone(), names_end, "reappears_at_end"));
        }
        // A..A B A..A : split the first run around a foreign run
        if runs[0] >= 2 {
            let mut r2 = vec![runs[0] / 2, runs[1], runs[0] - runs[0] / 2];
            r2.extend_from_slice(&runs[2..]);
            let mut n2: Vec<&str> = vec![NAMES_ASCII[0], NAMES_ASCII[1], NAMES_ASCII[0]];
            for i in 2..runs.len() {
                n2.push(NAMES_ASCII[i]);
            }
            // build_text indexes names by run position
            variants.push((r2, n2, "foreign_run_strictly_inside"));
        }
        for (r2, n2, vname) in variants {
            let (text, _, _) = build_text(&r2, &n2, None, false, true);
            let _ = std::fs::write(&path, &text);
            files += 1;
            let res = wr::guard(|| index_chroms(std::fs::File::open(&path).unwrap()));
            match res {
                Ok(Ok(None)) => out.count(&format!("ungrouped_{}_reported_none", vname), 1),
                Ok(Ok(Some(idx))) => {
                    // weaker, user-relevant condition: the parallel writer must end in an error
                    let (pr, _) = parallel_write(&path, idx.clone(), sizes_for(NAMES_ASCII), true);
                    match pr {
                        CallResult::Ok => out.viol("ungrouped_file_silently_written", vname, J::obj().set("index", J::s(format!("{:?}", idx))).set("text", J::s(wr::truncate(&text, 600)))),
                        _ => out.count(&format!("ungrouped_{}_index_returned_but_writer_refused", vname), 1),
                    }
                }
                Ok(Err(e)) => out.count(&format!("ungrouped_{}_index_error:{}", vname, wr::truncate(&e.to_string(), 20)), 1),
                Err(p) => out.viol("index_panicked", format!("ungrouped:{}:{}", vname, wr::panic_site(&p)), J::s(p.join("|"))),
            }
        }
    }
    let _ = std::fs::remove_file(&path);
    out.count("files", files);
    out
}

#[derive(Clone, Copy, Debug)]
enum VOp {
    Read(usize),
    Start(u64),
    Current(i64),
    End(i64),
}
const VOPS: &[VOp] = &[
    VOp::Read(0),
    VOp::Read(1),
    VOp::Read(7),
    VOp::Read(1000),
    VOp::Start(0),
    VOp::Start(3),
    VOp::Start(1000),
    VOp::Current(-1000),
    VOp::Current(-2),
    VOp::Current(0),
    VOp::Current(2),
    VOp::Current(1000),
    VOp::End(-1000),
    VOp::End(-3),
    VOp::End(0),
    VOp::End(5),
];

/// FileView vs a byte-array model of the window. One case = one window start.
pub fn c18v(ctx: &Ctx, begin: &mut dyn FnMut(J)) -> Outcome {
    let (flen, seqlen) = if ctx.tier == Tier::Quick { (24usize, 3usize) } else { (44, 4) };
    let mut out = Outcome::new();
    let a = ctx.case as usize;
    begin(J::obj().set("file_len", flen.into()).set("window_start", a.into()).set("seq_len", seqlen.into()));
    if a > flen {
        out.inconclusive = Some("blocked_by:none beyond enumeration".into());
        return out;
    }
    out.hash = format!("window_start_{}_{}", a, flen);
    out.nontrivial = true;
    let data: Vec<u8> = (0..flen).map(|i| (i * 7 + 3) as u8).collect();
    let path = wr::scratch_file(&ctx.scratch, "bin");
    if std::fs::write(&path, &data).is_err() {
        out.inconclusive = Some("HARNESS cannot write scratch file".into());
        return out;
    }
    let nseq = VOPS.len().pow(seqlen as u32);
    let mut seqs = 0u64;
    let mut ends: Vec<u64> = (a as u64..=flen as u64).collect();
    ends.push(flen as u64 + 10);
    ends.push(u64::MAX);
    for b in ends {
        let end = (b.min(flen as u64)) as usize;
        for code in 0..nseq {
            let mut c = code;
            let mut ops = [VOp::Read(0); 4];
            for slot in ops.iter_mut().take(seqlen) {
                *slot = VOPS[c % VOPS.len()];
                c /= VOPS.len();
            }
            seqs += 1;
            let res = wr::guard(|| -> Result<(), (String, String, String)> {
                let file = std::fs::File::open(&path).map_err(|e| ("HARNESS".to_string(), "".to_string(), e.to_string()))?;
                let mut v = FileView::new(file, a as u64, b).map_err(|e| ("new_failed".to_string(), "".to_string(), e.to_string()))?;
                let mut p = a; // absolute model position
                for (i, op) in ops.iter().take(seqlen).enumerate() {
                    match *op {
                        VOp::Read(n) => {
                            let mut buf = vec![0u8; n];
                            let k = v.read(&mut buf).map_err(|e| ("read_error".to_string(), "".to_string(), e.to_string()))?;
                            let avail = end - p;
                            if k > n.min(avail) {
                                return Err(("read_past_window_end".into(), "".into(), format!("op {} read {} bytes with {} available", i, k, avail)));
                            }
                            if k == 0 && n > 0 && avail > 0 {
                                return Err(("read_returned_eof_inside_window".into(), "".into(), format!("op {} at model pos {}", i, p)));
                            }
                            if buf[..k] != data[p..p + k] {
                                return Err(("read_wrong_bytes".into(), "".into(), format!("op {} at model pos {} got {:?} want {:?}", i, p, &buf[..k], &data[p..p + k])));
                            }
                            p += k;
                        }
                        VOp::Start(s) => {
                            let r = v.seek(SeekFrom::Start(s)).map_err(|e| ("seek_error".to_string(), "start".to_string(), e.to_string()))?;
                            p = ((a as u64).saturating_add(s)).min(end as u64) as usize;
                            if r != (p - a) as u64 {
                                return Err(("seek_position_wrong".into(), "start".into(), format!("op {} returned {} want {}", i, r, p - a)));
                            }
                        }
                        VOp::Current(d) => {
                            let r = v.seek(SeekFrom::Current(d)).map_err(|e| ("seek_error".to_string(), "current".to_string(), e.to_string()))?;
                            p = (p as i64 + d).clamp(a as i64, end as i64) as usize;
                            if r != (p - a) as u64 {
                                return Err(("seek_position_wrong".into(), "current".into(), format!("op {} returned {} want {}", i, r, p - a)));
                            }
                        }
                        VOp::End(d) => {
                            let r = v.seek(SeekFrom::End(d)).map_err(|e| ("seek_error".to_string(), "end".to_string(), e.to_string()))?;
                            p = (end as i64 + d.min(0)).clamp(a as i64, end as i64) as usize;
                            if r != (p - a) as u64 {
                                return Err(("seek_position_wrong".into(), "end".into(), format!("op {} returned {} want {}", i, r, p - a)));
                            }
                        }
                    }
                }
                Ok(())
            });
            let desc = || J::obj().set("window", J::A(vec![a.into(), J::U(b)])).set("ops", J::s(format!("{:?}", &ops[..seqlen])));
            match res {
                Ok(Ok(())) => {}
                Ok(Err((class, site, d))) if class == "HARNESS" => {
                    let _ = (site, d);
                    out.inconclusive = Some("HARNESS open failed".into());
                }
                Ok(Err((class, site, d))) => out.viol(&class, site, desc().set("what", J::s(d))),
                Err(p) => {
                    // name the operation kind that panicked: the last seek kind in the sequence is a
                    // good-enough discriminator together with the panic location
                    let has_end_before_window = ops.iter().take(seqlen).any(|o| matches!(o, VOp::End(d) if (end as i64 + d.min(&0)) < a as i64));
                    out.viol(
                        "panic",
                        format!("{}:{}", wr::panic_site(&p), if has_end_before_window && a > 0 { "seek_end_before_window_start" } else { "other" }),
                        desc().set("panic", J::s(p.join("|"))),
                    );
                }
            }
        }
    }
    let _ = std::fs::remove_file(&path);
    out.count("op_sequences", seqs);
    out
}

/// Chunker: for every chunk count 1..lines+2
pub fn c18s(ctx: &Ctx, begin: &mut dyn FnMut(J)) -> Outcome {
    let all = run_vectors();
    let mut out = Outcome::new();
    let Some(runs) = all.get(ctx.case as usize).cloned() else {
        begin(J::Null);
        out.inconclusive = Some("blocked_by:none beyond enumeration".into());
        return out;
    };
    begin(J::obj().set("run_lengths", J::A(runs.iter().map(|x| J::U(*x as u64)).collect())));
    out.hash = format!("{:?}", runs);
    out.nontrivial = runs.iter().sum::<usize>() >= 2;
    let path = wr::scratch_file(&ctx.scratch, "bed");
    let total_lines: usize = runs.iter().sum();
    let mut calls = 0u64;
    for (nameset, names) in [("ascii", NAMES_ASCII), ("multibyte", NAMES_MB)] {
        for (long_at, reps, mixed) in [
            (None, 34, false),
            (None, 34, true),
            (Some(0), 34, false),
            (Some(total_lines / 2), 34, false),
            (Some(total_lines - 1), 34, false),
            (Some(0), 2400, false),
            (Some(total_lines / 2), 1000, false),
            (Some(total_lines - 1), 2400, false),
        ] {
            for final_newline in [true, false] {
                let (text, _, nlines) = build_text_l(&runs, names, long_at, reps, mixed, final_newline);
                let _ = std::fs::write(&path, &text);
                let size = text.len() as u64;
                let mut line_starts: Vec<u64> = vec![0];
                for (i, b) in text.bytes().enumerate() {
                    if b == b'\n' && (i + 1) < text.len() {
                        line_starts.push(i as u64 + 1);
                    }
                }
                for chunks in 1..=(nlines as u64 + 2) {
                    calls += 1;
                    let res = wr::guard(|| split_file_into_chunks_by_size(std::fs::File::open(&path).unwrap(), chunks));
                    let site = format!("{}:{}", nameset, if reps > 34 { "line_over_8KiB" } else if long_at.is_some() { "long_line" } else if mixed { "mixed" } else { "uniform" });
                    let d = |what: String| J::obj().set("chunks_requested", chunks.into()).set("what", J::s(what)).set("text", J::s(wr::truncate(&text, 500)));
                    match res {
                        Ok(Ok(v)) => {
                            if v.is_empty() || v[0].0 != 0 || v.last().unwrap().1 != size {
                                out.viol("chunks_do_not_cover_file", site.clone(), d(format!("{:?} size {}", v, size)));
                                continue;
                            }
                            for w in v.windows(2) {
                                if w[0].1 != w[1].0 {
                                    out.viol("chunks_not_contiguous", site.clone(), d(format!("{:?}", v)));
                                }
                            }
                            for (s, e) in &v {
                                if s >= e {
                                    out.viol("empty_or_inverted_chunk", site.clone(), d(format!("{:?}", v)));
                                }
                                if !line_starts.contains(s) {
                                    out.viol("chunk_cut_not_at_line_start", site.clone(), d(format!("{:?} line starts {:?}", v, line_starts)));
                                }
                            }
                        }
                        Ok(Err(e)) => out.viol("chunker_error_on_valid_file", format!("{}:{}", site, if e.to_string().contains("UTF-8") { "utf8" } else { "other" }), d(e.to_string())),
                        Err(p) => out.viol("chunker_panicked", format!("{}:{}", site, wr::panic_site(&p)), d(p.join("|"))),
                    }
                }
            }
        }
    }
    let _ = std::fs::remove_file(&path);
    out.count("chunker_calls", calls);
    out
}
