//! C11: output bytes do not depend on threads, buffering or task timing.
use crate::cases::rt::{gen_bb_case, gen_bw_case, BbGenCfg, BwGenCfg};
use crate::gen::*;
use crate::hooks::{self, Ev};
use crate::proto::{Ctx, Outcome, Tier};
use crate::sink::{CountingCursor, MemSink};
use crate::util::{digest, Fnv, Rng, J};
use crate::wr::{self, CallResult};
use bigtools::utils::cli::bigbedtobed::{write_bed, write_bed_singlethreaded};
use bigtools::utils::cli::bigwigtobedgraph::{write_bg, write_bg_singlethreaded};
use bigtools::{BigBedRead, BigWigRead};
use std::collections::HashMap;
use std::sync::Arc;

/// Per-run analysis of the hook trace: hand-off class per chromosome (main data buffer),
/// ordering-safety problems, and a compact interleaving signature.
pub struct TraceView {
    pub handoffs: Vec<String>,
    pub problems: Vec<String>,
    pub signature: String,
}

pub fn analyse_trace(tr: &[Ev]) -> TraceView {
    let mut problems = vec![];
    // Buffer identity = (address, generation): addresses are reused once a buffer has been
    // consumed by await_real_file, so the generation is bumped at `tfb.await.returned`.
    // (`tfb.drop.closed` may be emitted after that and is not used here.)
    let mut gen: HashMap<u64, u64> = HashMap::new();
    let mut keyed: Vec<(u64, &Ev)> = Vec::with_capacity(tr.len()); // (buffer key, event)
    for e in tr {
        if e.id.starts_with("tfb.") {
            let g = *gen.get(&e.a).unwrap_or(&0);
            keyed.push((e.a.wrapping_mul(1_000_003).wrapping_add(g), e));
            if e.id == "tfb.await.returned" {
                gen.insert(e.a, g + 1);
            }
        } else {
            keyed.push((u64::MAX, e));
        }
    }
    // map main-data buffer -> chromosome index: the tfb.switch that directly follows
    // bbi.chroms.pre_switch(idx) on the same thread
    let mut buf_of_chrom: HashMap<u64, u64> = HashMap::new();
    let mut chrom_of_buf: HashMap<u64, u64> = HashMap::new();
    let mut pending: HashMap<u64, u64> = HashMap::new(); // thread -> idx
    let mut last_switch_idx: Option<u64> = None;
    for (key, e) in &keyed {
        match e.id {
            "bbi.chroms.pre_switch" => {
                if let Some(l) = last_switch_idx {
                    if e.a != l + 1 {
                        problems.push(format!("chromosome switches out of order: {} after {}", e.a, l));
                    }
                } else if e.a != 0 {
                    problems.push(format!("first switch is for chromosome {}", e.a));
                }
                last_switch_idx = Some(e.a);
                pending.insert(e.thread, e.a);
            }
            "tfb.switch" => {
                if let Some(idx) = pending.remove(&e.thread) {
                    buf_of_chrom.insert(idx, *key);
                    chrom_of_buf.insert(*key, idx);
                }
            }
            _ => {}
        }
    }
    let n = buf_of_chrom.len() as u64;
    let mut handoffs = vec![];
    let mut sig = String::new();
    for c in 0..n {
        let b = buf_of_chrom[&c];
        let pos = |id: &str| keyed.iter().position(|(k, e)| *k == b && e.id == id);
        let switch = pos("tfb.switch");
        let took = keyed.iter().position(|(k, e)| *k == b && e.id == "tfb.update.post_swap" && e.b % 2 == 1);
        let closed = pos("tfb.drop.pre_lock");
        let class = match took {
            Some(i) => match keyed[i].1.b / 2 {
                0 => "file_arrived_before_first_write",
                1 => "mid_stream_from_memory",
                2 => "mid_stream_from_temp_file",
                _ => "?",
            },
            None => "after_the_writer_closed",
        };
        handoffs.push(class.to_string());
        let finished_before_file = match (closed, switch) {
            (Some(c_), Some(s_)) => c_ < s_,
            _ => false,
        };
        sig.push_str(match class {
            "file_arrived_before_first_write" => "B",
            "mid_stream_from_memory" => "M",
            "mid_stream_from_temp_file" => "T",
            _ => {
                if finished_before_file {
                    "F"
                } else {
                    "A"
                }
            }
        });
        // ordering safety: chromosome c takes the file only after chromosome c-1's await returned
        if c > 0 {
            let prev_ret = keyed.iter().position(|(_, e)| e.id == "bbi.chroms.post_await" && e.a == c - 1);
            if let (Some(t), Some(p)) = (took, prev_ret) {
                if t < p {
                    problems.push(format!("chromosome {} took the file before chromosome {} returned it", c, c - 1));
                }
            }
        }
    }
    // how many chromosomes had started writing before the first hand-off completed
    let first_ret = keyed.iter().position(|(_, e)| e.id == "bbi.chroms.post_await" && e.a == 0).unwrap_or(keyed.len());
    let early: std::collections::HashSet<u64> = keyed[..first_ret].iter().filter(|(_, e)| e.id == "tfb.update.post_swap").filter_map(|(k, _)| chrom_of_buf.get(k).copied()).collect();
    sig.push_str(&format!("|early{}", early.len().min(5)));
    TraceView { handoffs, problems, signature: sig }
}

#[derive(Clone, Debug)]
struct RunCfg {
    workers: usize,
    chan: usize,
    inmemory: bool,
    source: Source,
    policy: usize,
}

fn gen_runcfg(r: &mut Rng, i: usize) -> RunCfg {
    if i == 0 {
        return RunCfg { workers: 0, chan: 0, inmemory: true, source: Source::Serial, policy: 0 };
    }
    RunCfg {
        workers: *r.pick(WORKERS),
        chan: *r.pick(CHAN),
        inmemory: r.chance(1, 2),
        source: match r.below(5) {
            0 | 1 => Source::Parallel,
            2 => Source::SerialText,
            _ => Source::Serial,
        },
        policy: r.below(5) as usize,
    }
}

pub fn c11w(ctx: &Ctx, begin: &mut dyn FnMut(J)) -> Outcome {
    let mut r = Rng::derive(ctx.seed, 0xC11, ctx.case);
    let is_bw = ctx.case % 2 == 0;
    let nruns = if ctx.tier == Tier::Quick { 10 } else { 30 };
    let mut out = Outcome::new();
    // uneven chromosomes: the first is the largest so later ones finish first
    let (bw, bb, opts) = if is_bw {
        let mut c = gen_bw_case(&mut r, &BwGenCfg { allow_zero_len: false, huge_ok: false, small_slots: true, allow_unsorted_chroms: false, max_chroms: 8, force_exact: false });
        while c.input.len() < 4 {
            let extra = gen_bw_case(&mut r, &BwGenCfg { allow_zero_len: false, huge_ok: false, small_slots: true, allow_unsorted_chroms: false, max_chroms: 8, force_exact: false });
            for (ch, v) in extra.input {
                if !c.input.iter().any(|(x, _)| x.name == ch.name) {
                    c.input.push((ch, v));
                }
            }
            c.input.sort_by(|a, b| a.0.name.as_bytes().cmp(b.0.name.as_bytes()));
        }
        // heavy chromosomes (several BufWriter flushes each) of uneven size, the first the largest,
        // so that later chromosomes finish while earlier ones still hold the file
        let nch = c.input.len();
        // the heaviest chromosome is the first one two times out of three, otherwise a random one
        let heavy = if r.chance(2, 3) { 0 } else { r.below(nch as u64) as usize };
        for (ci, (ch, vals)) in c.input.iter_mut().enumerate() {
            let target = if ci == heavy { 3000 } else { r.range(150, 1500) as usize / (1 + (ci % 3)) };
            let need = (target as u32) * 12 + 50;
            ch.size = ch.size.max(need);
            let mut v = vec![];
            let mut pos = 0u32;
            while v.len() < target && pos + 12 < ch.size {
                let len = r.range(1, 9) as u32;
                v.push(bigtools::Value { start: pos, end: pos + len, value: gen_value(&mut r, false) });
                pos += len + r.below(3) as u32;
            }
            *vals = v;
            let _ = nch;
        }
        if r.chance(1, 2) {
            c.opts.compress = false;
        }
        c.opts.items_per_slot = *r.pick(&[5u32, 16, 64, 1024]);
        c.opts.sort_all = true;
        (Some(c.input), None, c.opts)
    } else {
        let mut c = gen_bb_case(&mut r, &BbGenCfg { allow_zero_len: false, no_zero_zero: true, small_slots: true, max_chroms: 8, ncols: None });
        while c.input.len() < 4 {
            let extra = gen_bb_case(&mut r, &BbGenCfg { allow_zero_len: false, no_zero_zero: true, small_slots: true, max_chroms: 8, ncols: None });
            for (ch, v) in extra.input {
                if !c.input.iter().any(|(x, _)| x.name == ch.name) {
                    c.input.push((ch, v));
                }
            }
        }
        c.input.sort_by(|a, b| a.0.name.as_bytes().cmp(b.0.name.as_bytes()));
        // heavy chromosomes of uneven size (several BufWriter flushes each), the first the largest
        let nchb = c.input.len();
        let heavy = if r.chance(2, 3) { 0 } else { r.below(nchb as u64) as usize };
        for (ci, (ch, ents)) in c.input.iter_mut().enumerate() {
            let target = if ci == heavy { 1500 } else { r.range(100, 900) as usize / (1 + (ci % 3)) };
            ch.size = ch.size.max(target as u32 * 6 + 100);
            let mut v = vec![];
            let mut pos = 0u32;
            while v.len() < target && pos + 40 < ch.size {
                let len = r.range(1, 30) as u32;
                v.push(bigtools::BedEntry { start: pos, end: pos + len, rest: gen_rest(&mut r, 3) });
                pos += r.below(6) as u32;
            }
            *ents = v;
        }
        if r.chance(1, 2) {
            c.opts.compress = false;
        }
        c.opts.items_per_slot = *r.pick(&[5u32, 16, 64, 1024]);
        c.opts.sort_all = true;
        (None, Some(c.input), c.opts)
    };
    let mut f = Fnv::new();
    if let Some(i) = &bw {
        bw_hash(i, &mut f);
    }
    if let Some(i) = &bb {
        bb_hash(i, &mut f);
    }
    f.str(&opts.format_key());
    out.hash = f.hex();
    begin(
        J::obj()
            .set("kind", if is_bw { "bigwig" } else { "bigbed" }.into())
            .set("format_opts", J::s(opts.format_key()))
            .set("runs", nruns.into())
            .set("input", if let Some(i) = &bw { bw_input_json(i) } else { bb_input_json(bb.as_ref().unwrap()) }),
    );
    let nchrom = bw.as_ref().map(|i| i.len()).or(bb.as_ref().map(|i| i.len())).unwrap();
    let mut reference: Option<(String, RunCfg)> = None;
    let mut ok_runs = 0u64;
    let sanitizer_mode = std::env::var_os("BVH_SANITIZER_MODE").is_some();
    for i in 0..nruns {
        let rc = gen_runcfg(&mut r, i);
        let mut o = opts.clone();
        o.workers = rc.workers;
        o.channel_size = rc.chan;
        o.inmemory = rc.inmemory;
        o.source = rc.source.clone();
        hooks::set_policy(rc.policy, ctx.seed ^ (ctx.case * 131 + i as u64), !sanitizer_mode);
        let _ = hooks::take_trace();
        let sink = MemSink::new();
        let res = if let Some(inp) = &bw { wr::write_bw(sink.clone(), inp, &o, Some(&ctx.scratch), &[]) } else { wr::write_bb(sink.clone(), bb.as_ref().unwrap(), &o, None, Some(&ctx.scratch), &[]) };
        hooks::set_policy(0, 0, false);
        let tr = hooks::take_trace();
        // heartbeat: a class is up to 30 writes, some of them slowed down on purpose by the delay policy; the
        // runner's watchdog is a quiescence bound on protocol lines, so say that this write returned
        crate::proto::emit(&J::obj().set("ev", "tick".into()).set("case", ctx.case.into()).set("run", i.into()));
        match &res {
            CallResult::Ok => {}
            CallResult::Err(e) if e.starts_with("INDEX_") || e.contains("File is not sorted") => {
                out.count("runs_blocked_by_C18", 1);
                continue;
            }
            other => {
                out.viol("write_failed_under_some_schedule", if is_bw { "bigwig" } else { "bigbed" }, J::obj().set("run", J::s(format!("{:?}", rc))).set("result", J::s(other.short())));
                continue;
            }
        }
        ok_runs += 1;
        let d = digest(&sink.bytes());
        match &reference {
            None => reference = Some((d, rc.clone())),
            Some((rd, rrc)) => {
                if *rd != d {
                    out.viol(
                        "output_bytes_differ_between_schedules",
                        if is_bw { "bigwig" } else { "bigbed" },
                        J::obj().set("reference_run", J::s(format!("{:?}", rrc))).set("this_run", J::s(format!("{:?}", rc))).set("reference_digest", J::s(rd.clone())).set("this_digest", J::s(d)),
                    );
                }
            }
        }
        if !sanitizer_mode {
            let tv = analyse_trace(&tr);
            for p in tv.problems {
                out.viol("handoff_order_violated", p.split(' ').take(3).collect::<Vec<_>>().join("_"), J::s(p));
            }
            if tv.handoffs.len() == nchrom {
                for h in &tv.handoffs {
                    out.count(&format!("handoff:{}", h), 1);
                }
                out.set_add("interleavings", tv.signature);
            } else {
                out.count("runs_with_incomplete_trace", 1);
            }
            out.count("trace_events", tr.len() as u64);
        }
        out.tag(format!("workers={}", rc.workers));
        out.tag(format!("source={:?}", rc.source));
    }
    out.count("runs_compared", ok_runs);
    out.nontrivial = ok_runs >= 2 && nchrom >= 2;
    if ok_runs < 2 {
        out.inconclusive = Some("blocked_by:C18 fewer than two successful runs".into());
    }
    out
}

/// Converters: multi-threaded text == single-threaded text.
pub fn c11c(ctx: &Ctx, begin: &mut dyn FnMut(J)) -> Outcome {
    let mut r = Rng::derive(ctx.seed, 0xC11C, ctx.case);
    let is_bw = ctx.case % 2 == 0;
    let mut out = Outcome::new();
    let read_file = |p: &std::path::Path| std::fs::read(p).unwrap_or_default();
    if is_bw {
        let mut c = gen_bw_case(&mut r, &BwGenCfg { allow_zero_len: false, huge_ok: false, small_slots: false, allow_unsorted_chroms: true, max_chroms: 8, force_exact: false });
        c.opts.source = Source::Serial;
        begin(J::obj().set("kind", "bigwig".into()).set("opts", c.opts.to_json()).set("input", bw_input_json(&c.input)));
        out.hash = c.hash.clone();
        out.nontrivial = c.input.len() >= 2;
        let sink = MemSink::new();
        if !matches!(wr::write_bw(sink.clone(), &c.input, &c.opts, Some(&ctx.scratch), &[]), CallResult::Ok) {
            out.inconclusive = Some("blocked_by:C01 write failed".into());
            return out;
        }
        let bytes = Arc::new(sink.bytes());
        let p1 = wr::scratch_file(&ctx.scratch, "st.bedGraph");
        let res = wr::guard(|| -> Result<Vec<u8>, String> {
            let rd = BigWigRead::open(CountingCursor::new(bytes.clone())).map_err(|e| e.to_string())?;
            write_bg_singlethreaded(rd, std::fs::File::create(&p1).map_err(|e| format!("HARNESS {}", e))?, None, None, None).map_err(|e| e.to_string())?;
            Ok(read_file(&p1))
        });
        let _ = std::fs::remove_file(&p1);
        let single = match res {
            Ok(Ok(b)) => b,
            other => {
                out.viol("single_threaded_converter_failed", "bigwigtobedgraph", J::s(format!("{:?}", other.map(|r| r.map(|_| ())))));
                return out;
            }
        };
        // the single-threaded text must itself be the input
        let want = {
            let mut s = String::new();
            for (ch, vs) in &c.input {
                for v in vs {
                    // a full-span read drops zero-length values at 0 / chromosome end (C01's finding); none generated here
                    s.push_str(&format!("{}\t{}\t{}\t{}\n", ch.name, v.start, v.end, ""));
                }
            }
            s
        };
        let _ = want;
        let runs = if ctx.tier == Tier::Quick { 4 } else { 10 };
        for i in 0..runs {
            let n = *r.pick(&[1usize, 2, 3, 4, 8, 16]);
            let inmem = r.chance(1, 2);
            let policy = r.below(5) as usize;
            hooks::set_policy(policy, ctx.seed ^ (ctx.case * 77 + i as u64), false);
            let p2 = wr::scratch_file(&ctx.scratch, "mt.bedGraph");
            let on_disk = i % 2 == 1;
            let p3 = wr::scratch_file(&ctx.scratch, "in.bw");
            let res = wr::guard(|| -> Result<Vec<u8>, String> {
                if on_disk {
                    // the tools' own path: a ReopenableFile reader, reopened once per chromosome task
                    std::fs::write(&p3, &bytes[..]).map_err(|e| format!("HARNESS {}", e))?;
                    let rd = BigWigRead::open_file(&p3).map_err(|e| e.to_string())?;
                    write_bg(rd, std::fs::File::create(&p2).map_err(|e| format!("HARNESS {}", e))?, inmem, n).map_err(|e| e.to_string())?;
                } else {
                    let rd = BigWigRead::open(CountingCursor::new(bytes.clone())).map_err(|e| e.to_string())?;
                    write_bg(rd, std::fs::File::create(&p2).map_err(|e| format!("HARNESS {}", e))?, inmem, n).map_err(|e| e.to_string())?;
                }
                Ok(read_file(&p2))
            });
            let _ = std::fs::remove_file(&p3);
            out.tag(if on_disk { "reader=ReopenableFile" } else { "reader=in_memory" });
            hooks::set_policy(0, 0, false);
            let _ = std::fs::remove_file(&p2);
            out.count("converter_runs", 1);
            out.tag(format!("threads={}", n));
            match res {
                Ok(Ok(b)) => {
                    if b != single {
                        out.viol(
                            "multithreaded_text_differs_from_single_threaded",
                            "bigwigtobedgraph",
                            J::obj().set("threads", n.into()).set("inmemory", inmem.into()).set("policy", policy.into()).set("len_single", single.len().into()).set("len_multi", b.len().into()),
                        );
                    }
                }
                Ok(Err(e)) => out.viol("multithreaded_converter_failed", "bigwigtobedgraph", J::s(e)),
                Err(p) => out.viol("multithreaded_converter_panicked", format!("bigwigtobedgraph:{}", wr::panic_site(&p)), J::A(p.into_iter().map(J::S).collect())),
            }
        }
    } else {
        let mut c = gen_bb_case(&mut r, &BbGenCfg { allow_zero_len: false, no_zero_zero: true, small_slots: false, max_chroms: 8, ncols: None });
        c.opts.source = Source::Serial;
        begin(J::obj().set("kind", "bigbed".into()).set("opts", c.opts.to_json()).set("input", bb_input_json(&c.input)));
        out.hash = c.hash.clone();
        out.nontrivial = c.input.len() >= 2;
        let sink = MemSink::new();
        if !matches!(wr::write_bb(sink.clone(), &c.input, &c.opts, None, Some(&ctx.scratch), &[]), CallResult::Ok) {
            out.inconclusive = Some("blocked_by:C02 write failed".into());
            return out;
        }
        let bytes = Arc::new(sink.bytes());
        let p1 = wr::scratch_file(&ctx.scratch, "st.bed");
        let res = wr::guard(|| -> Result<Vec<u8>, String> {
            let rd = BigBedRead::open(CountingCursor::new(bytes.clone())).map_err(|e| e.to_string())?;
            write_bed_singlethreaded(rd, std::fs::File::create(&p1).map_err(|e| format!("HARNESS {}", e))?, None, None, None, None).map_err(|e| e.to_string())?;
            Ok(read_file(&p1))
        });
        let _ = std::fs::remove_file(&p1);
        let single = match res {
            Ok(Ok(b)) => b,
            other => {
                out.viol("single_threaded_converter_failed", "bigbedtobed", J::s(format!("{:?}", other.map(|r| r.map(|_| ())))));
                return out;
            }
        };
        let runs = if ctx.tier == Tier::Quick { 4 } else { 10 };
        for i in 0..runs {
            let n = *r.pick(&[1usize, 2, 3, 4, 8, 16]);
            let inmem = r.chance(1, 2);
            let policy = r.below(5) as usize;
            hooks::set_policy(policy, ctx.seed ^ (ctx.case * 77 + i as u64), false);
            let p2 = wr::scratch_file(&ctx.scratch, "mt.bed");
            let on_disk = i % 2 == 1;
            let p3 = wr::scratch_file(&ctx.scratch, "in.bb");
            let res = wr::guard(|| -> Result<Vec<u8>, String> {
                if on_disk {
                    std::fs::write(&p3, &bytes[..]).map_err(|e| format!("HARNESS {}", e))?;
                    let rd = BigBedRead::open_file(&p3).map_err(|e| e.to_string())?;
                    write_bed(rd, std::fs::File::create(&p2).map_err(|e| format!("HARNESS {}", e))?, inmem, n).map_err(|e| e.to_string())?;
                } else {
                    let rd = BigBedRead::open(CountingCursor::new(bytes.clone())).map_err(|e| e.to_string())?;
                    write_bed(rd, std::fs::File::create(&p2).map_err(|e| format!("HARNESS {}", e))?, inmem, n).map_err(|e| e.to_string())?;
                }
                Ok(read_file(&p2))
            });
            let _ = std::fs::remove_file(&p3);
            out.tag(if on_disk { "reader=ReopenableFile" } else { "reader=in_memory" });
            hooks::set_policy(0, 0, false);
            let _ = std::fs::remove_file(&p2);
            out.count("converter_runs", 1);
            out.tag(format!("threads={}", n));
            match res {
                Ok(Ok(b)) => {
                    if b != single {
                        out.viol(
                            "multithreaded_text_differs_from_single_threaded",
                            "bigbedtobed",
                            J::obj().set("threads", n.into()).set("inmemory", inmem.into()).set("policy", policy.into()).set("len_single", single.len().into()).set("len_multi", b.len().into()),
                        );
                    }
                }
                Ok(Err(e)) => out.viol("multithreaded_converter_failed", "bigbedtobed", J::s(e)),
                Err(p) => out.viol("multithreaded_converter_panicked", format!("bigbedtobed:{}", wr::panic_site(&p)), J::A(p.into_iter().map(J::S).collect())),
            }
        }
    }
    out
}
