pub mod rt;
pub mod zoom;

use crate::proto::Tier;
use std::path::Path;

/// Subcommands that do not follow the per-case protocol.
pub fn special(_cmd: &str, _seed: u64, _tier: Tier, _scratch: &Path, _arg: &str) -> Option<i32> {
    None
}
