//! Deliberately naive reference models. They use only the public `Value` /
//! `BedEntry` structs of bigtools.
use bigtools::{BedEntry, Value};

#[derive(Debug, Clone, Copy)]
pub struct Stats {
    pub bases: u64,
    pub min: f64,
    pub max: f64,
    pub sum: f64,
    pub sumsq: f64,
    /// sum of |term| (for tolerances)
    pub abs_sum: f64,
    pub abs_sumsq: f64,
    pub terms: u64,
}
impl Stats {
    pub fn empty() -> Self {
        Stats { bases: 0, min: f64::INFINITY, max: f64::NEG_INFINITY, sum: 0.0, sumsq: 0.0, abs_sum: 0.0, abs_sumsq: 0.0, terms: 0 }
    }
    pub fn add(&mut self, len: u64, v: f64) {
        if len == 0 {
            return;
        }
        self.bases += len;
        self.min = self.min.min(v);
        self.max = self.max.max(v);
        let l = len as f64;
        self.sum += l * v;
        self.sumsq += l * v * v;
        self.abs_sum += (l * v).abs();
        self.abs_sumsq += l * v * v;
        self.terms += 1;
    }
    pub fn merge(&mut self, o: &Stats) {
        self.bases += o.bases;
        self.min = self.min.min(o.min);
        self.max = self.max.max(o.max);
        self.sum += o.sum;
        self.sumsq += o.sumsq;
        self.abs_sum += o.abs_sum;
        self.abs_sumsq += o.abs_sumsq;
        self.terms += o.terms;
    }
}

/// Statistics of the bigWig signal over [a, b): each stored value contributes
/// the bases it has inside the range.
pub fn bw_stats(vals: &[Value], a: u32, b: u32) -> Stats {
    let mut s = Stats::empty();
    for v in vals {
        let lo = v.start.max(a);
        let hi = v.end.min(b);
        if lo < hi {
            s.add((hi - lo) as u64, v.value as f64);
        }
    }
    s
}

/// Mathematical overlap of half-open intervals: non-empty intersection.
pub fn overlaps(a: u32, b: u32, s: u32, e: u32) -> bool {
    a.max(s) < b.min(e)
}

/// bigWig range query model: stored values with non-empty intersection, clipped.
pub fn bw_query(vals: &[Value], s: u32, e: u32) -> Vec<Value> {
    vals.iter()
        .filter(|v| overlaps(v.start, v.end, s, e))
        .map(|v| Value { start: v.start.max(s), end: v.end.min(e), value: v.value })
        .collect()
}

pub fn bw_values_array(vals: &[Value], s: u32, e: u32) -> Vec<f32> {
    let mut out = vec![f32::NAN; (e - s) as usize];
    for v in bw_query(vals, s, e) {
        for p in v.start..v.end {
            out[(p - s) as usize] = v.value;
        }
    }
    out
}

/// Depth array 0..len (len covers the furthest entry end).
pub fn depth_array(entries: &[BedEntry], min_len: u32) -> Vec<u32> {
    let len = entries.iter().map(|e| e.end).max().unwrap_or(0).max(min_len) as usize;
    let mut d = vec![0u32; len];
    for e in entries {
        for p in e.start..e.end {
            d[p as usize] += 1;
        }
    }
    d
}

/// Statistics of the depth function over covered bases in [a, b)
pub fn depth_stats(depth: &[u32], a: u32, b: u32) -> Stats {
    let mut s = Stats::empty();
    let b = (b as usize).min(depth.len());
    let mut p = a as usize;
    while p < b {
        let d = depth[p];
        let mut q = p + 1;
        while q < b && depth[q] == d {
            q += 1;
        }
        if d > 0 {
            s.add((q - p) as u64, d as f64);
        }
        p = q;
    }
    s
}

pub fn ulps_f32(a: f32, b: f32) -> u64 {
    if a == b {
        return 0;
    }
    if a.is_nan() || b.is_nan() || (a < 0.0) != (b < 0.0) {
        return u64::MAX;
    }
    (a.to_bits() as i64 - b.to_bits() as i64).unsigned_abs()
}

/// Is the stored f32 an acceptable single-precision rendering of the f64 model
/// value, given the accumulation noise bound `abs_terms`?
pub fn f32_close(stored: f32, model: f64, abs_terms: f64) -> bool {
    let m32 = model as f32;
    if ulps_f32(stored, m32) <= 2 {
        return true;
    }
    ((stored as f64) - model).abs() <= 1e-6 * abs_terms + f64::MIN_POSITIVE
}

pub fn f64_close(stored: f64, model: f64, abs_terms: f64, n: u64) -> bool {
    if stored == model {
        return true;
    }
    (stored - model).abs() <= 4.0 * (n.max(1) as f64) * f64::EPSILON * abs_terms
}
