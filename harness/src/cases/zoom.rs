//! C07 / C08: every stored zoom level is a faithful reduction of the data.
use crate::cases::rt::{gen_bb_case, gen_bw_case, BbGenCfg, BwGenCfg};
use crate::gen::*;
use crate::hooks;
use crate::model::{self, Stats};
use crate::proto::{Ctx, Outcome};
use crate::sink::MemSink;
use crate::util::{Rng, J};
use crate::walk::{self, ZRec};
use crate::wr::{self, CallResult};
use bigtools::{BigBedRead, BigWigRead};
use std::io::Cursor;

/// Signal abstraction: statistics of the data inside [a,b) of chromosome index `ci`.
pub trait Signal {
    fn stats(&self, ci: usize, a: u32, b: u32) -> Stats;
    fn chrom_size(&self, ci: usize) -> u32;
    /// furthest base with data (entries may run past the nominal chromosome end in bigBed)
    fn data_end(&self, ci: usize) -> u32;
    fn n_chroms(&self) -> usize;
}

pub struct BwSignal<'a>(pub &'a BwInput);
impl<'a> Signal for BwSignal<'a> {
    fn stats(&self, ci: usize, a: u32, b: u32) -> Stats {
        model::bw_stats(&self.0[ci].1, a, b)
    }
    fn chrom_size(&self, ci: usize) -> u32 {
        self.0[ci].0.size
    }
    fn data_end(&self, ci: usize) -> u32 {
        self.0[ci].0.size
    }
    fn n_chroms(&self) -> usize {
        self.0.len()
    }
}
pub struct BbSignal {
    pub depth: Vec<Vec<u32>>,
    pub sizes: Vec<u32>,
}
impl BbSignal {
    pub fn new(inp: &BbInput) -> Self {
        BbSignal { depth: inp.iter().map(|(c, vs)| model::depth_array(vs, c.size)).collect(), sizes: inp.iter().map(|(c, _)| c.size).collect() }
    }
}
impl Signal for BbSignal {
    fn stats(&self, ci: usize, a: u32, b: u32) -> Stats {
        model::depth_stats(&self.depth[ci], a, b)
    }
    fn chrom_size(&self, ci: usize) -> u32 {
        self.sizes[ci]
    }
    fn data_end(&self, ci: usize) -> u32 {
        self.depth[ci].len() as u32
    }
    fn n_chroms(&self) -> usize {
        self.depth.len()
    }
}

fn zrec_json(z: &ZRec) -> J {
    J::obj()
        .set("chrom", z.chrom.into())
        .set("start", z.start.into())
        .set("end", z.end.into())
        .set("valid", z.valid.into())
        .set("min", J::F(z.min as f64))
        .set("max", J::F(z.max as f64))
        .set("sum", J::F(z.sum as f64))
        .set("sumsq", J::F(z.sumsq as f64))
}

/// Checks all zoom levels of the file in `bytes` against the signal. Returns number of records checked.
pub fn check_zooms(out: &mut Outcome, bytes: &[u8], sig: &dyn Signal, kind: &str) -> Result<u64, String> {
    let h = walk::parse_header(bytes)?;
    let mut prev_res = 0u32;
    let mut nrec = 0u64;
    out.count("zoom_levels", h.zooms.len() as u64);
    if h.zooms.len() > 10 {
        out.viol("too_many_zoom_levels", "", J::U(h.zooms.len() as u64));
    }
    for (li, (res, _rsv, data_off, index_off)) in h.zooms.iter().enumerate() {
        if *res <= prev_res {
            out.viol("zoom_levels_not_increasing", "", J::obj().set("level", li.into()).set("res", (*res).into()).set("prev", prev_res.into()));
        }
        prev_res = *res;
        let t = walk::walk_rtree(bytes, h.le, *index_off)?;
        for p in &t.problems {
            out.viol("zoom_index_structure", p.split(' ').take(3).collect::<Vec<_>>().join("_"), J::s(p.clone()));
        }
        let _ = data_off;
        let mut recs: Vec<ZRec> = vec![];
        for l in &t.leaves {
            let rs = walk::zoom_block(bytes, &h, l)?;
            if rs.is_empty() {
                out.viol("empty_zoom_block", "", J::U(l.off));
            }
            if rs.len() as u32 > t.items_per_slot {
                out.viol("zoom_block_over_items_per_slot", "", J::obj().set("n", rs.len().into()).set("ips", t.items_per_slot.into()));
            }
            recs.extend(rs);
        }
        nrec += recs.len() as u64;
        let site_l = |s: &str| format!("{}:{}", kind, s);
        // order / disjointness / length / chromosome bounds
        for w in recs.windows(2) {
            let (a, b) = (&w[0], &w[1]);
            if (a.chrom, a.start) > (b.chrom, b.start) {
                out.viol("zoom_records_out_of_order", site_l(""), J::A(vec![zrec_json(a), zrec_json(b)]));
            } else if a.chrom == b.chrom && a.end > b.start {
                out.viol("zoom_records_overlap", site_l(""), J::obj().set("res", (*res).into()).set("recs", J::A(vec![zrec_json(a), zrec_json(b)])));
            }
        }
        let mut per_chrom_valid = vec![0u64; sig.n_chroms()];
        for z in &recs {
            let ci = z.chrom as usize;
            if ci >= sig.n_chroms() {
                out.viol("zoom_record_bad_chrom", site_l(""), zrec_json(z));
                continue;
            }
            if z.end < z.start || z.end - z.start > *res {
                out.viol("zoom_record_longer_than_resolution", site_l(""), J::obj().set("res", (*res).into()).set("rec", zrec_json(z)));
            }
            if z.end > sig.data_end(ci).max(sig.chrom_size(ci)) {
                out.viol("zoom_record_past_chrom_end", site_l(""), zrec_json(z));
            }
            let m = sig.stats(ci, z.start, z.end);
            per_chrom_valid[ci] += z.valid as u64;
            let detail = || {
                J::obj()
                    .set("res", (*res).into())
                    .set("rec", zrec_json(z))
                    .set("model_bases", m.bases.into())
                    .set("model_min", J::F(m.min))
                    .set("model_max", J::F(m.max))
                    .set("model_sum", J::F(m.sum))
                    .set("model_sumsq", J::F(m.sumsq))
            };
            if z.valid as u64 != m.bases {
                let site = if m.bases == 0 {
                    "record_over_bases_without_data"
                } else if (z.valid as u64) > m.bases {
                    "counts_more_than_covered"
                } else {
                    "counts_fewer_than_covered"
                };
                out.viol("zoom_bases_covered_wrong", site_l(site), detail());
                continue;
            }
            if m.bases == 0 {
                out.viol("zoom_record_without_data", site_l(""), detail());
                continue;
            }
            if (z.min as f64) != m.min {
                out.viol("zoom_min_wrong", site_l(if (z.min as f64) < m.min { "below_data" } else { "above_data" }), detail());
            }
            if (z.max as f64) != m.max {
                out.viol("zoom_max_wrong", site_l(if (z.max as f64) > m.max { "above_data" } else { "below_data" }), detail());
            }
            if !model::f32_close(z.sum, m.sum, m.abs_sum) {
                out.viol("zoom_sum_wrong", site_l(""), detail());
            }
            if !model::f32_close(z.sumsq, m.sumsq, m.abs_sumsq) {
                out.viol("zoom_sumsq_wrong", site_l(""), detail());
            }
        }
        // every base with data lies in exactly one record: with disjoint records whose covered
        // counts equal the model's, it suffices that the totals agree per chromosome
        for ci in 0..sig.n_chroms() {
            let total = sig.stats(ci, 0, sig.data_end(ci).max(sig.chrom_size(ci))).bases;
            if per_chrom_valid[ci] != total {
                out.viol(
                    "zoom_level_misses_or_double_counts_bases",
                    site_l(if per_chrom_valid[ci] < total { "fewer" } else { "more" }),
                    J::obj().set("res", (*res).into()).set("chrom", ci.into()).set("records_total", per_chrom_valid[ci].into()).set("model_total", total.into()),
                );
            }
        }
    }
    Ok(nrec)
}

fn drain_invariants(out: &mut Outcome) {
    for f in hooks::take_invariant_fails() {
        let id = f.split(':').next().unwrap_or("?").to_string();
        out.viol("zoom_cursor_moved_backwards", id, J::s(f));
    }
}

pub fn c07(ctx: &Ctx, begin: &mut dyn FnMut(J)) -> Outcome {
    let mut r = Rng::derive(ctx.seed, 0xC07, ctx.case);
    let mut case = gen_bw_case(
        &mut r,
        &BwGenCfg { allow_zero_len: false, huge_ok: false, small_slots: true, allow_unsorted_chroms: false, max_chroms: 6, force_exact: false },
    );
    // manual resolutions more often than not, so levels are always present
    if r.chance(2, 3) {
        case.opts.zoom = Zoom::Manual(match r.below(11) {
            0 => vec![1],
            1 => vec![4],
            2 => vec![7, 13],
            3 => vec![10, 100],
            4 => vec![100, 1000],
            // a list need not be given in ascending order (the levels are still *listed* ascending in the file)
            5 => vec![400, 10, 40],
            6 => vec![100, 7],
            7 => vec![10, 10, 40],
            8 => vec![40, 0, 10],
            // more sizes than the ten zoom-header slots of the format
            9 => vec![2, 3, 5, 8, 13, 21, 34, 55, 89, 144, 233, 377],
            _ => vec![*r.pick(&[2, 3, 5, 10, 25]), 400],
        });
        if let Zoom::Manual(v) = &case.opts.zoom {
            if v.windows(2).any(|w| w[0] > w[1]) {
                case.tags.push("manual_zoom_list_not_ascending".into());
            }
            if v.len() > 10 {
                case.tags.push("manual_zoom_list_longer_than_10".into());
            }
            if v.windows(2).any(|w| w[0] == w[1]) {
                case.tags.push("manual_zoom_list_with_repeated_size".into());
            }
        }
    }
    begin(J::obj().set("opts", case.opts.to_json()).set("input", bw_input_json(&case.input)));
    let mut out = Outcome::new();
    out.hash = case.hash.clone();
    for t in &case.tags {
        out.tag(t.clone());
    }
    let _ = hooks::take_invariant_fails();
    let sink = MemSink::new();
    let res = wr::write_bw(sink.clone(), &case.input, &case.opts, Some(&ctx.scratch), &[]);
    drain_invariants(&mut out);
    match &res {
        CallResult::Ok => {}
        CallResult::Err(e) if e.starts_with("HARNESS") => {
            out.inconclusive = Some(e.clone());
            return out;
        }
        CallResult::Err(e) if e.starts_with("INDEX_") || e.contains("File is not sorted") => {
            out.inconclusive = Some(format!("blocked_by:C18 {}", e));
            return out;
        }
        other => {
            out.viol("write_failed", wr::truncate(&other.short(), 60), J::s(other.short()));
            return out;
        }
    }
    let bytes = sink.bytes();
    let sig = BwSignal(&case.input);
    match wr::guard(|| check_zooms(&mut out, &bytes, &sig, "bw")) {
        Ok(Ok(n)) => {
            out.count("zoom_records", n);
            out.nontrivial = n >= 2;
        }
        Ok(Err(e)) => out.viol("zoom_decode_failed", wr::truncate(&e, 50), J::s(e)),
        Err(p) => {
            out.inconclusive = Some(format!("harness_panic {:?}", p));
            return out;
        }
    }
    // reader's view: zoom range queries
    let rd = wr::guard(|| -> Result<(), String> {
        let mut rd = BigWigRead::open(Cursor::new(bytes.clone())).map_err(|e| e.to_string())?;
        let levels: Vec<u32> = rd.info().zoom_headers.iter().map(|z| z.reduction_level).collect();
        let h = walk::parse_header(&bytes)?;
        for (li, res) in levels.iter().enumerate() {
            let t = walk::walk_rtree(&bytes, h.le, h.zooms[li].3)?;
            let mut all: Vec<ZRec> = vec![];
            for l in &t.leaves {
                all.extend(walk::zoom_block(&bytes, &h, l)?);
            }
            for (ci, (c, _)) in case.input.iter().enumerate() {
                let mine: Vec<&ZRec> = all.iter().filter(|z| z.chrom as usize == ci).collect();
                // full span = the walker's records of this chromosome
                let got: Vec<(u32, u32)> = rd
                    .get_zoom_interval(&c.name, 0, c.size, *res)
                    .map_err(|e| e.to_string())?
                    .map(|z| z.map(|z| (z.start, z.end)).map_err(|e| e.to_string()))
                    .collect::<Result<_, _>>()?;
                let want: Vec<(u32, u32)> = mine.iter().map(|z| (z.start, z.end)).collect();
                if got != want {
                    out.viol("zoom_query_full_span_mismatch", "bw", J::obj().set("res", (*res).into()).set("chrom", J::s(c.name.clone())).set("got", got.len().into()).set("want", want.len().into()));
                }
                // sub-range queries from record boundaries
                let mut bounds: Vec<u32> = vec![0, c.size];
                for z in mine.iter().take(40) {
                    for b in [z.start, z.end, z.start.saturating_sub(1), z.end.saturating_add(1).min(c.size)] {
                        bounds.push(b.min(c.size));
                    }
                }
                bounds.sort();
                bounds.dedup();
                for _ in 0..12 {
                    let a = *r.pick(&bounds);
                    let b = *r.pick(&bounds);
                    let (s, e) = (a.min(b), a.max(b));
                    if s == e {
                        continue;
                    }
                    // one query in four goes through the by-value twin of the call (a separate body in the reader)
                    let got: Vec<(u32, u32)> = if r.chance(1, 4) {
                        out.count("zoom_queries_by_value_reader", 1);
                        BigWigRead::open(Cursor::new(bytes.clone()))
                            .map_err(|e| e.to_string())?
                            .get_zoom_interval_move(&c.name, s, e, *res)
                            .map_err(|e| e.to_string())?
                            .map(|z| z.map(|z| (z.start, z.end)).map_err(|e| e.to_string()))
                            .collect::<Result<_, _>>()?
                    } else {
                        rd.get_zoom_interval(&c.name, s, e, *res)
                            .map_err(|e| e.to_string())?
                            .map(|z| z.map(|z| (z.start, z.end)).map_err(|e| e.to_string()))
                            .collect::<Result<_, _>>()?
                    };
                    out.count("zoom_queries", 1);
                    let must: Vec<(u32, u32)> = mine.iter().filter(|z| model::overlaps(z.start, z.end, s, e)).map(|z| (z.start, z.end)).collect();
                    let may: Vec<(u32, u32)> = mine.iter().filter(|z| z.end >= s && z.start <= e).map(|z| (z.start, z.end)).collect();
                    let missing = must.iter().any(|m| !got.contains(m));
                    let spurious = got.iter().any(|g| !may.contains(g));
                    if missing {
                        out.viol("zoom_query_misses_record", "bw", J::obj().set("res", (*res).into()).set("q", J::A(vec![s.into(), e.into()])));
                    }
                    if spurious {
                        out.viol("zoom_query_returns_disjoint_record", "bw", J::obj().set("res", (*res).into()).set("q", J::A(vec![s.into(), e.into()])));
                    }
                }
            }
        }
        Ok(())
    });
    match rd {
        Ok(Ok(())) => {}
        Ok(Err(e)) => out.viol("zoom_read_failed", wr::truncate(&e, 50), J::s(e)),
        Err(p) => out.viol("zoom_read_panicked", wr::panic_site(&p), J::A(p.into_iter().map(J::S).collect())),
    }
    out
}

pub fn c08(ctx: &Ctx, begin: &mut dyn FnMut(J)) -> Outcome {
    let mut r = Rng::derive(ctx.seed, 0xC08, ctx.case);
    let mut case = gen_bb_case(&mut r, &BbGenCfg { allow_zero_len: true, no_zero_zero: true, small_slots: true, max_chroms: 5, ncols: Some(0) });
    if r.chance(2, 3) {
        case.opts.zoom = Zoom::Manual(match r.below(11) {
            0 => vec![1],
            1 => vec![4],
            2 => vec![7, 13],
            3 => vec![10, 100],
            4 => vec![100, 1000],
            // a list need not be given in ascending order (the levels are still *listed* ascending in the file)
            5 => vec![400, 10, 40],
            6 => vec![100, 7],
            7 => vec![10, 10, 40],
            8 => vec![40, 0, 10],
            // more sizes than the ten zoom-header slots of the format
            9 => vec![2, 3, 5, 8, 13, 21, 34, 55, 89, 144, 233, 377],
            _ => vec![*r.pick(&[2, 3, 5, 10, 25]), 400],
        });
        if let Zoom::Manual(v) = &case.opts.zoom {
            if v.windows(2).any(|w| w[0] > w[1]) {
                case.tags.push("manual_zoom_list_not_ascending".into());
            }
            if v.len() > 10 {
                case.tags.push("manual_zoom_list_longer_than_10".into());
            }
            if v.windows(2).any(|w| w[0] == w[1]) {
                case.tags.push("manual_zoom_list_with_repeated_size".into());
            }
        }
    }
    begin(J::obj().set("opts", case.opts.to_json()).set("input", bb_input_json(&case.input)));
    let mut out = Outcome::new();
    out.hash = case.hash.clone();
    for t in &case.tags {
        out.tag(t.clone());
    }
    let _ = hooks::take_invariant_fails();
    let sink = MemSink::new();
    let res = wr::write_bb(sink.clone(), &case.input, &case.opts, None, Some(&ctx.scratch), &[]);
    drain_invariants(&mut out);
    match &res {
        CallResult::Ok => {}
        CallResult::Err(e) if e.starts_with("HARNESS") => {
            out.inconclusive = Some(e.clone());
            return out;
        }
        CallResult::Err(e) if e.starts_with("INDEX_") || e.contains("File is not sorted") => {
            out.inconclusive = Some(format!("blocked_by:C18 {}", e));
            return out;
        }
        other => {
            out.viol("write_failed", wr::truncate(&other.short(), 60), J::s(other.short()));
            return out;
        }
    }
    let bytes = sink.bytes();
    let sig = BbSignal::new(&case.input);
    match wr::guard(|| check_zooms(&mut out, &bytes, &sig, "bb")) {
        Ok(Ok(n)) => {
            out.count("zoom_records", n);
            out.nontrivial = n >= 2;
        }
        Ok(Err(e)) => out.viol("zoom_decode_failed", wr::truncate(&e, 50), J::s(e)),
        Err(p) => {
            out.inconclusive = Some(format!("harness_panic {:?}", p));
            return out;
        }
    }
    let rd = wr::guard(|| -> Result<(), String> {
        let mut rd = BigBedRead::open(Cursor::new(bytes.clone())).map_err(|e| e.to_string())?;
        let levels: Vec<u32> = rd.info().zoom_headers.iter().map(|z| z.reduction_level).collect();
        let h = walk::parse_header(&bytes)?;
        for (li, res) in levels.iter().enumerate() {
            let t = walk::walk_rtree(&bytes, h.le, h.zooms[li].3)?;
            let mut all: Vec<ZRec> = vec![];
            for l in &t.leaves {
                all.extend(walk::zoom_block(&bytes, &h, l)?);
            }
            for (ci, (c, _)) in case.input.iter().enumerate() {
                let mine: Vec<&ZRec> = all.iter().filter(|z| z.chrom as usize == ci).collect();
                let hi = sig.data_end(ci).max(c.size);
                let got: Vec<(u32, u32)> = rd
                    .get_zoom_interval(&c.name, 0, hi, *res)
                    .map_err(|e| e.to_string())?
                    .map(|z| z.map(|z| (z.start, z.end)).map_err(|e| e.to_string()))
                    .collect::<Result<_, _>>()?;
                let want: Vec<(u32, u32)> = mine.iter().map(|z| (z.start, z.end)).collect();
                if got != want {
                    out.viol("zoom_query_full_span_mismatch", "bb", J::obj().set("res", (*res).into()).set("chrom", J::s(c.name.clone())).set("got", got.len().into()).set("want", want.len().into()));
                }
                let mut bounds: Vec<u32> = vec![0, c.size];
                for z in mine.iter().take(40) {
                    for b in [z.start, z.end, z.start.saturating_sub(1), z.end.saturating_add(1)] {
                        bounds.push(b.min(hi));
                    }
                }
                bounds.sort();
                bounds.dedup();
                for _ in 0..12 {
                    let a = *r.pick(&bounds);
                    let b = *r.pick(&bounds);
                    let (s, e) = (a.min(b), a.max(b));
                    if s == e {
                        continue;
                    }
                    // one query in four goes through the by-value twin of the call (a separate body in the reader)
                    let got: Vec<(u32, u32)> = if r.chance(1, 4) {
                        out.count("zoom_queries_by_value_reader", 1);
                        BigBedRead::open(Cursor::new(bytes.clone()))
                            .map_err(|e| e.to_string())?
                            .get_zoom_interval_move(&c.name, s, e, *res)
                            .map_err(|e| e.to_string())?
                            .map(|z| z.map(|z| (z.start, z.end)).map_err(|e| e.to_string()))
                            .collect::<Result<_, _>>()?
                    } else {
                        rd.get_zoom_interval(&c.name, s, e, *res)
                            .map_err(|e| e.to_string())?
                            .map(|z| z.map(|z| (z.start, z.end)).map_err(|e| e.to_string()))
                            .collect::<Result<_, _>>()?
                    };
                    out.count("zoom_queries", 1);
                    let must: Vec<(u32, u32)> = mine.iter().filter(|z| model::overlaps(z.start, z.end, s, e)).map(|z| (z.start, z.end)).collect();
                    let may: Vec<(u32, u32)> = mine.iter().filter(|z| z.end >= s && z.start <= e).map(|z| (z.start, z.end)).collect();
                    if must.iter().any(|m| !got.contains(m)) {
                        out.viol("zoom_query_misses_record", "bb", J::obj().set("res", (*res).into()).set("q", J::A(vec![s.into(), e.into()])));
                    }
                    if got.iter().any(|g| !may.contains(g)) {
                        out.viol("zoom_query_returns_disjoint_record", "bb", J::obj().set("res", (*res).into()).set("q", J::A(vec![s.into(), e.into()])));
                    }
                }
            }
        }
        Ok(())
    });
    match rd {
        Ok(Ok(())) => {}
        Ok(Err(e)) => out.viol("zoom_read_failed", wr::truncate(&e, 50), J::s(e)),
        Err(p) => out.viol("zoom_read_panicked", wr::panic_site(&p), J::A(p.into_iter().map(J::S).collect())),
    }
    out
}
