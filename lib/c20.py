"""C20 -- Python-binding array routines compute the documented per-base and binned values.

Two legs:
  c20-python-values   the real `values()` call of the built extension (pytests/c20_values.py under the tooling
                      interpreter, 16 shards) against a per-base numpy oracle;
  c20-rust-routines   the six private routines called directly from c20_rs/props.rs through the cfg-gated
                      `mod verif_c20` of pybigtools/src/lib.rs (`cargo test`), same oracle in Rust.

Use from lib/props.py:
    import c20
    PROPS["C20"] = c20.PROP            # builds: pyext (+cli), legs: c20.legs
"""
import hashlib
import json
import os
import queue
import shutil
import subprocess
import threading
import time

import pyleg
import runner

PYVT = "/opt/veriftools/pyvenv/bin/python"
SCRIPT = "/verif/pytests/c20_values.py"
PROPS_RS = "/verif/c20_rs/props.rs"
REPO = "/repo"
TARGET_REPO = "/verif/target/repo"

STALL_S = 90  # a case takes milliseconds (the CLI writer has a 60 s timeout); no protocol line for this long => stuck
CARGO_TIMEOUT_S = 1500


def py_cases(tier):
    return 1500 if tier == "quick" else 90000


def rs_cases(tier):
    """cases per routine (each case = one layout, 4 calls)"""
    return 4000 if tier == "quick" else 300000


# ---------------------------------------------------------------------------------------------------
# python leg
# ---------------------------------------------------------------------------------------------------


def _py_cmd(seed, cases, scratch, shard=None, only=None, start_from=0):
    cmd = [PYVT, SCRIPT, "--seed", str(seed), "--cases", str(cases), "--scratch", scratch]
    if only is not None:
        cmd += ["--only", str(only)]
    else:
        cmd += ["--shard", "%d/%d" % shard, "--from", str(start_from)]
    return cmd


def _env():
    e = dict(os.environ)
    e["RUST_BACKTRACE"] = "0"
    e["PYTHONDONTWRITEBYTECODE"] = "1"
    return e


def _run_worker(cmd, on_line, stall_s=STALL_S):
    """Run one worker, feed parsed JSON lines to on_line. Returns ('done'|'exit'|'stalled', returncode)."""
    p = subprocess.Popen(cmd, stdout=subprocess.PIPE, stderr=subprocess.DEVNULL, env=_env(), text=True, errors="replace")
    q = queue.Queue()

    def rd():
        for line in p.stdout:
            q.put(line)
        q.put(None)

    t = threading.Thread(target=rd, daemon=True)
    t.start()
    done = False
    last = time.time()
    while True:
        try:
            line = q.get(timeout=1.0)
        except queue.Empty:
            if time.time() - last > stall_s:
                try:
                    p.kill()
                except Exception:
                    pass
                p.wait()
                return "stalled", None
            continue
        last = time.time()
        if line is None:
            break
        line = line.strip()
        if not line:
            continue
        try:
            j = json.loads(line)
        except Exception:
            on_line({"ev": "garbage", "line": line[:200]})
            continue
        if j.get("ev") == "done":
            done = True
        else:
            on_line(j)
    rc = p.wait()
    return ("done" if done and rc == 0 else "exit"), rc


def run_one_case(seed, k, scratch, stall_s=STALL_S):
    """Re-run a single case alone. -> (status, rc, result-json-or-None)"""
    got = {}

    def on_line(j):
        if "case" in j and "viols" in j:
            got["r"] = j

    st, rc = _run_worker(_py_cmd(seed, k + 1, scratch, only=k), on_line, stall_s)
    return st, rc, got.get("r")


def _shard(seed, cases, scratch, si, sn, out, problems):
    """Drive shard si/sn to completion, restarting after the case that killed / stalled a worker."""
    start_from = 0
    restarts = 0
    while True:
        state = {"open": None}

        def on_line(j):
            if j.get("ev") == "begin":
                state["open"] = j["case"]
            elif j.get("ev") == "garbage":
                problems.append(("garbage", None, j["line"]))
            elif "case" in j:
                out.append(j)
                state["open"] = None

        st, rc = _run_worker(_py_cmd(seed, cases, scratch, shard=(si, sn), start_from=start_from), on_line)
        if st == "done":
            return
        k = state["open"]
        if k is None:
            problems.append(("worker_lost", None, "shard %d/%d ended (%s, rc=%s) with no open case" % (si, sn, st, rc)))
            return
        problems.append(("suspect", k, (st, rc)))
        start_from = k + 1
        restarts += 1
        if restarts > 50:
            problems.append(("worker_lost", None, "shard %d/%d restarted more than 50 times" % (si, sn)))
            return


def _feed(leg, j, seed, tier):
    viols = [(v["class"], v.get("site", ""), v.get("detail")) for v in j.get("viols", [])]
    leg.case(
        j.get("desc"),
        hash=j.get("hash") or None,
        nontrivial=bool(j.get("nt")),
        tags=j.get("tags", []),
        counts=j.get("counts", {}),
        violations=viols,
        inconclusive=j.get("inconclusive"),
        replay={"kind": "c20", "seed": seed, "case": j["case"], "tier": tier},
        case_id=j["case"],
    )


def run_python_leg(tier, seed, scratch):
    leg = pyleg.PyLeg("c20-python-values", cmd="c20", seed=seed, tier=tier)
    cases = py_cases(tier)
    sdir = os.path.join(scratch, "c20py")
    os.makedirs(sdir, exist_ok=True)
    try:
        if not os.path.exists("/verif/target/pyext/pybigtools/pybigtools.so"):
            leg.error("pybigtools extension not built (python3 lib/build.py pyext)")
            return leg.done()
        sn = min(runner.NCPU, cases)
        outs = [[] for _ in range(sn)]
        problems = []
        threads = [threading.Thread(target=_shard, args=(seed, cases, sdir, i, sn, outs[i], problems), daemon=True) for i in range(sn)]
        for t in threads:
            t.start()
        for t in threads:
            t.join()
        results = {}
        for o in outs:
            for j in o:
                results[j["case"]] = j
        for k in sorted(results):
            _feed(leg, results[k], seed, tier)
        # workers that died / stalled on a specific case: confirm alone on the now idle machine
        for (what, k, info) in problems:
            if what == "garbage":
                leg.error("unparsable worker line: %r" % (info,))
            elif what == "worker_lost":
                leg.error(info)
            elif what == "suspect":
                st0, rc0 = info
                replay = {"kind": "c20", "seed": seed, "case": k, "tier": tier}
                desc = {"case": k, "note": "worker %s (rc=%s) while this case was open" % (st0, rc0)}
                st1, rc1, r1 = run_one_case(seed, k, sdir)
                if r1 is not None and st1 == "done":
                    _feed(leg, r1, seed, tier)  # finished alone: take that verdict
                    leg.res.tags["died_or_stalled_once_then_finished"] += 1
                elif st0 == "exit" and rc0 is not None and rc0 < 0 and st1 == "exit" and rc1 is not None and rc1 < 0:
                    leg.case(desc, nontrivial=False, case_id=k, replay=replay,
                             violations=[("process_died", "signal=%d" % (-rc1), {"note": "the interpreter was killed by signal %d (Rust abort?) on this case in the sharded run (rc %s) and again when the case was re-run alone" % (-rc1, rc0)})])
                else:
                    leg.case(desc, nontrivial=False, case_id=k, replay=replay,
                             inconclusive="worker %s rc=%s in the sharded run; alone: %s rc=%s" % (st0, rc0, st1, rc1))
        return leg.done()
    finally:
        shutil.rmtree(sdir, ignore_errors=True)


# ---------------------------------------------------------------------------------------------------
# rust leg
# ---------------------------------------------------------------------------------------------------

ROUTINES = ["to_array", "to_array_bins", "to_array_zoom", "to_entry_array", "to_entry_array_bins", "to_entry_array_zoom"]


def cargo_cmd():
    return ["cargo", "test", "--offline", "-p", "pybigtools", "verif_c20", "--", "--nocapture", "--test-threads", "1"]


def cargo_env(seed, cases):
    e = _env()
    e.update({
        "BIGTOOLS_VERIF_C20": PROPS_RS,
        "RUSTFLAGS": "--cfg bigtools_verif",
        "CARGO_TARGET_DIR": TARGET_REPO,
        "PYO3_PYTHON": PYVT,
        "CARGO_NET_OFFLINE": "true",
        "VERIF_SEED": str(seed),
        "VERIF_C20_CASES": str(cases),
    })
    e.pop("RUSTC_WRAPPER", None)
    return e


def run_cargo(seed, cases):
    """-> (returncode|None, [parsed C20RS objects], tail of the output)"""
    try:
        p = subprocess.run(cargo_cmd(), cwd=REPO, env=cargo_env(seed, cases), stdout=subprocess.PIPE, stderr=subprocess.STDOUT,
                           text=True, errors="replace", timeout=CARGO_TIMEOUT_S)
    except subprocess.TimeoutExpired as ex:
        return None, [], "cargo test timed out after %ss: %s" % (CARGO_TIMEOUT_S, str(ex.stdout or "")[-500:])
    lines = []
    for line in p.stdout.splitlines():
        i = line.find("C20RS ")
        if i < 0:
            continue
        try:
            lines.append(json.loads(line[i + 6:]))
        except Exception:
            lines.append({"garbage": line[:300]})
    tail = "\n".join(x for x in p.stdout.splitlines()[-25:] if "C20RS" not in x)
    return p.returncode, lines, tail


def run_rust_leg(tier, seed, scratch):
    leg = pyleg.PyLeg("c20-rust-routines", cmd="c20rs", seed=seed, tier=tier)
    cases = rs_cases(tier)
    rc, lines, tail = run_cargo(seed, cases)
    if rc is None:
        leg.case({"what": "cargo test"}, nontrivial=False, inconclusive=tail)
        return leg.done()
    seen = set()
    for j in lines:
        if "garbage" in j:
            leg.error("unparsable C20RS line: %r" % j["garbage"])
            continue
        routine = j.get("routine", "?")
        seen.add(routine)
        desc = {"routine": routine, "batch": j.get("batch"), "seed": seed, "cases": j.get("cases"), "calls": j.get("calls")}
        replay = {"kind": "c20rs", "seed": seed, "tier": tier, "routine": routine, "batch": j.get("batch")}
        if j.get("skipped"):
            leg.case(desc, nontrivial=False, inconclusive="skipped: " + j["skipped"], replay=replay)
            continue
        viols = [(v["class"], v.get("site", ""), {"occurrences_in_batch": v.get("count"), "first": v.get("detail")}) for v in j.get("viols", [])]
        leg.case(desc, hash="%s:%s" % (routine, j.get("hash")), nontrivial=(j.get("nontrivial", 0) > 0),
                 tags=["routine:" + routine], counts={"routine_calls": j.get("calls", 0), "routine_layouts": j.get("cases", 0)},
                 violations=viols, replay=replay, case_id="%s#%s" % (routine, j.get("batch")))
    missing = [r for r in ROUTINES if r not in seen]
    if missing:
        if not lines:
            leg.error("cargo test produced no C20RS line (rc=%s):\n%s" % (rc, tail))
        else:
            for r in missing:
                leg.case({"routine": r}, nontrivial=False, inconclusive="no C20RS line for this routine (cargo rc=%s): %s" % (rc, tail[-300:]))
    elif rc != 0:
        # the property tests never fail by themselves: a non-zero status is a harness problem
        leg.error("cargo test exited with rc=%s although every routine reported:\n%s" % (rc, tail))
    return leg.done()


# ---------------------------------------------------------------------------------------------------
# legs / replay / registration
# ---------------------------------------------------------------------------------------------------


def legs(tier, seed, scratch):
    return [
        {"name": "c20-python-values", "run": lambda leg: run_python_leg(tier, seed, scratch)},
        {"name": "c20-rust-routines", "run": lambda leg: run_rust_leg(tier, seed, scratch)},
    ]


def _sig(v):
    return v["class"] + (":" + v["site"] if v.get("site") else "")


def replay(j, scratch):
    """Re-run one Python case (`--only K`); 1 if the recorded signature reproduces."""
    r = j["replay"]
    sdir = os.path.join(scratch, "c20replay")
    os.makedirs(sdir, exist_ok=True)
    try:
        st, rc, res = run_one_case(r["seed"], r["case"], sdir)
        print("replay of c20 case %s (seed %s): %s rc=%s" % (r["case"], r["seed"], st, rc))
        want = j.get("signature")
        if res is None:
            if want and want.startswith("process_died") and rc is not None and rc < 0:
                print("VIOLATION property=%s replay=<this file>" % j.get("property", "C20"))
                return 1
            print("the case did not finish; nothing to compare")
            return 0
        if res.get("inconclusive"):
            print("  inconclusive:", res["inconclusive"])
        for v in res["viols"]:
            print("  violation:", _sig(v))
            print("  detail:", json.dumps(v["detail"], default=str)[:2000])
        if any(_sig(v) == want for v in res["viols"]):
            print("VIOLATION property=%s signature=%s" % (j.get("property", "C20"), want))
            return 1
        print("signature %s did not reproduce" % want)
        return 0
    finally:
        shutil.rmtree(sdir, ignore_errors=True)


def replay_rs(j, scratch):
    """Re-run the Rust property tests at the recorded seed/tier; 1 if the signature is reported again."""
    r = j["replay"]
    rc, lines, tail = run_cargo(r["seed"], rs_cases(r.get("tier", "quick")))
    want = j.get("signature")
    hit = None
    for ln in lines:
        for v in ln.get("viols", []):
            if _sig(v) == want and (hit is None or ln.get("routine") == r.get("routine")):
                hit = (ln, v)
    print("replay of c20rs (seed %s): cargo rc=%s, %d batch lines" % (r["seed"], rc, len(lines)))
    if hit:
        print("  violation:", want, "in", hit[0].get("routine"), "batch", hit[0].get("batch"))
        print("  detail:", str(hit[1].get("detail"))[:2000])
        print("VIOLATION property=%s signature=%s" % (j.get("property", "C20"), want))
        return 1
    print("signature %s did not reproduce\n%s" % (want, tail[-400:] if not lines else ""))
    return 0


RULE = (
    "Leg 1 (primary): the real values() call of the built pybigtools extension. Per case one file on a 30-200 base "
    "chromosome plus a second chromosome (so the queried chromosome has id 0 or 1): bigWig layouts (sorted, disjoint, gaps, "
    "unit-length runs, values at 0 and at the chromosome end, finite f32 incl. negatives, -0.0, subnormals and +-3e38 when the "
    "file has no zoom levels) or bigBed layouts (overlapping, nested, identical, abutting entries, entries at 0 / the end), written "
    "by pybigtools' own writer or by the bedgraphtobigwig/bedtobigbed binaries with manual zoom levels from {2,3,4,5,7,8,10,16,21,32,40}; "
    "the file must read back to the layout (else inconclusive: C01/C02's business). 10-18 values() calls per case: start/end "
    "defaults, ranges inside, extending below 0, past the end, both, entirely outside, empty; ends drawn from item boundaries "
    "+-1; bins None / a divisor of e-s / e-s / 1 / arbitrary in 1..e-s; summary mean|min|max; exact True, and False (zoom path "
    "when the file has a level <= (e-s)/(2 bins)); missing finite arbitrary or NaN; oob default NaN / finite / NaN; arr= "
    "a fresh array, a contiguous view or a strided view prefilled with garbage. Oracle (numpy, per base): per-base output = "
    "stored value / entry count, `missing` where no data, `oob` outside [0,len); exact path with integral bin width: bins inside "
    "the chromosome = mean (1e-9 rel) / min / max (exact) over covered bases, `missing` if none, bins outside = `oob`, straddling "
    "bins either; any width and the zoom path: every output is `missing`, `oob` (only if the bin touches the outside) or within "
    "[min,max] of the data in the (zoom: widened) range, NaN only if that fill is NaN. A PanicException is a violation. "
    "Leg 2: to_array, to_array_bins, to_array_zoom, to_entry_array, to_entry_array_bins, to_entry_array_zoom called directly with "
    "synthetic iterators shaped like the callers' (bigWig values clipped, bigBed entries / zoom records unclipped, 1 in 5 calls also "
    "items that merely touch the range as the readers return them), same oracle in Rust, one case per routine x batch. "
    "Non-trivial = layout with >= 2 items and at least one binned call; distinct by hash of (layout, calls)."
)

PROP = dict(
    level="exploration",
    floor=50,
    builds=["cli", "pyext"],
    legs=legs,
    rule=RULE,
    assumptions=[
        "writer/reader round trip is C01/C02's business: a file that does not read back to the layout is inconclusive",
        "numpy float64 arithmetic (math.fsum for means) is the reference for the documented statistics",
        "which routine served a call is inferred from the arguments and the file's zoom levels (the documented choice rule), not observed",
    ],
)


def register():
    import props
    props.REPLAYERS["c20"] = replay
    props.REPLAYERS["c20rs"] = replay_rs


try:
    register()
except Exception:  # props is mid-import: it can call c20.register() itself
    pass


if __name__ == "__main__":
    # stand-alone: python3 lib/c20.py [quick|thorough] [seed]
    import sys
    tier = sys.argv[1] if len(sys.argv) > 1 else "quick"
    seed = int(sys.argv[2]) if len(sys.argv) > 2 else 1
    scratch = "/verif/.work/c20_%d" % os.getpid()
    os.makedirs(scratch, exist_ok=True)
    try:
        for lg in legs(tier, seed, scratch):
            r = lg["run"](lg)
            sigs = {}
            for v in r.violations:
                sigs[v["sig"]] = sigs.get(v["sig"], 0) + 1
            print("[C20] leg %-20s evaluations=%d held=%d inconclusive=%d violations=%d distinct_nt=%d wall=%.1fs" % (
                r.name, r.evaluations, r.held, len(r.inconclusive), len(r.violations), len(r.hashes_nt), r.wall_s))
            print("      counts:", dict(r.counts))
            for e in r.harness_errors[:5]:
                print("      HARNESS ERROR:", e[:500])
            for inc in r.inconclusive[:5]:
                print("      inconclusive:", inc)
            for s, n in sorted(sigs.items()):
                print("      %6d  %s" % (n, s))
    finally:
        shutil.rmtree(scratch, ignore_errors=True)
