//! Independent BBI walker: parses header, chromosome tree, R-trees and blocks
//! from raw bytes. Shares no code with bigtools (only libdeflater, a generic
//! zlib implementation, to inflate blocks).
use bigtools::{BedEntry, Value};

pub struct Rd<'a> {
    pub b: &'a [u8],
    pub le: bool,
}
impl<'a> Rd<'a> {
    pub fn need(&self, off: usize, n: usize) -> Result<(), String> {
        if off.checked_add(n).map(|e| e <= self.b.len()).unwrap_or(false) {
            Ok(())
        } else {
            Err(format!("read of {} bytes at {} past end of file ({})", n, off, self.b.len()))
        }
    }
    pub fn u8(&self, off: usize) -> Result<u8, String> {
        self.need(off, 1)?;
        Ok(self.b[off])
    }
    pub fn u16(&self, off: usize) -> Result<u16, String> {
        self.need(off, 2)?;
        let a = [self.b[off], self.b[off + 1]];
        Ok(if self.le { u16::from_le_bytes(a) } else { u16::from_be_bytes(a) })
    }
    pub fn u32(&self, off: usize) -> Result<u32, String> {
        self.need(off, 4)?;
        let mut a = [0u8; 4];
        a.copy_from_slice(&self.b[off..off + 4]);
        Ok(if self.le { u32::from_le_bytes(a) } else { u32::from_be_bytes(a) })
    }
    pub fn u64(&self, off: usize) -> Result<u64, String> {
        self.need(off, 8)?;
        let mut a = [0u8; 8];
        a.copy_from_slice(&self.b[off..off + 8]);
        Ok(if self.le { u64::from_le_bytes(a) } else { u64::from_be_bytes(a) })
    }
    pub fn f32(&self, off: usize) -> Result<f32, String> {
        Ok(f32::from_bits(self.u32(off)?))
    }
    pub fn f64(&self, off: usize) -> Result<f64, String> {
        Ok(f64::from_bits(self.u64(off)?))
    }
}

#[derive(Debug, Clone)]
pub struct Hdr {
    pub le: bool,
    pub is_bigwig: bool,
    pub version: u16,
    pub zoom_levels: u16,
    pub chrom_tree_off: u64,
    pub full_data_off: u64,
    pub full_index_off: u64,
    pub field_count: u16,
    pub defined_field_count: u16,
    pub autosql_off: u64,
    pub total_summary_off: u64,
    pub uncompress_buf_size: u32,
    pub reserved: u64,
    /// (reduction, reserved, data offset, index offset)
    pub zooms: Vec<(u32, u32, u64, u64)>,
}

pub const BW_MAGIC: u32 = 0x888F_FC26;
pub const BB_MAGIC: u32 = 0x8789_F2EB;

pub fn parse_header(b: &[u8]) -> Result<Hdr, String> {
    if b.len() < 64 {
        return Err("file shorter than the 64-byte header".into());
    }
    let m_le = u32::from_le_bytes([b[0], b[1], b[2], b[3]]);
    let m_be = u32::from_be_bytes([b[0], b[1], b[2], b[3]]);
    let (le, is_bigwig) = if m_le == BW_MAGIC {
        (true, true)
    } else if m_be == BW_MAGIC {
        (false, true)
    } else if m_le == BB_MAGIC {
        (true, false)
    } else if m_be == BB_MAGIC {
        (false, false)
    } else {
        return Err(format!("bad magic {:08x}", m_le));
    };
    let r = Rd { b, le };
    let zoom_levels = r.u16(6)?;
    let mut zooms = vec![];
    for i in 0..zoom_levels as usize {
        let o = 64 + 24 * i;
        zooms.push((r.u32(o)?, r.u32(o + 4)?, r.u64(o + 8)?, r.u64(o + 16)?));
    }
    Ok(Hdr {
        le,
        is_bigwig,
        version: r.u16(4)?,
        zoom_levels,
        chrom_tree_off: r.u64(8)?,
        full_data_off: r.u64(16)?,
        full_index_off: r.u64(24)?,
        field_count: r.u16(32)?,
        defined_field_count: r.u16(34)?,
        autosql_off: r.u64(36)?,
        total_summary_off: r.u64(44)?,
        uncompress_buf_size: r.u32(52)?,
        reserved: r.u64(56)?,
        zooms,
    })
}

#[derive(Debug, Clone)]
pub struct ChromRec {
    pub name: String,
    pub id: u32,
    pub size: u32,
}

pub struct ChromTree {
    pub block_size: u32,
    pub key_size: u32,
    pub val_size: u32,
    pub item_count: u64,
    pub chroms: Vec<ChromRec>,
}

pub fn chrom_tree(b: &[u8], h: &Hdr) -> Result<ChromTree, String> {
    let r = Rd { b, le: h.le };
    let o = h.chrom_tree_off as usize;
    if r.u32(o)? != 0x78CA_8C91 {
        return Err("bad chromosome tree magic".into());
    }
    let block_size = r.u32(o + 4)?;
    let key_size = r.u32(o + 8)?;
    let val_size = r.u32(o + 12)?;
    let item_count = r.u64(o + 16)?;
    let mut chroms = vec![];
    fn node(r: &Rd, off: usize, key: usize, out: &mut Vec<ChromRec>, depth: usize) -> Result<(), String> {
        if depth > 16 {
            return Err("chromosome tree deeper than 16".into());
        }
        let leaf = r.u8(off)?;
        let count = r.u16(off + 2)? as usize;
        for i in 0..count {
            let io = off + 4 + i * (key + 8);
            r.need(io, key + 8)?;
            if leaf == 1 {
                let kb = &r.b[io..io + key];
                let end = kb.iter().position(|c| *c == 0).unwrap_or(key);
                let name = String::from_utf8(kb[..end].to_vec()).map_err(|_| "chrom key not utf-8".to_string())?;
                out.push(ChromRec { name, id: r.u32(io + key)?, size: r.u32(io + key + 4)? });
            } else {
                let child = r.u64(io + key)? as usize;
                node(r, child, key, out, depth + 1)?;
            }
        }
        Ok(())
    }
    node(&r, o + 32, key_size as usize, &mut chroms, 0)?;
    Ok(ChromTree { block_size, key_size, val_size, item_count, chroms })
}

#[derive(Debug, Clone, Copy, PartialEq, Eq)]
pub struct Leaf {
    pub sc: u32,
    pub sb: u32,
    pub ec: u32,
    pub eb: u32,
    pub off: u64,
    pub size: u64,
}

#[derive(Debug, Default)]
pub struct TreeInfo {
    pub block_size: u32,
    pub item_count: u64,
    pub bounds: (u32, u32, u32, u32),
    pub end_file_offset: u64,
    pub items_per_slot: u32,
    pub leaves: Vec<Leaf>,
    pub depth: usize,
    pub node_count: usize,
    pub last_node_fill: Vec<usize>,
    /// structural problems found (child span not inside the parent entry, bad flags ...)
    pub problems: Vec<String>,
}

fn le_pos(a: (u32, u32), b: (u32, u32)) -> bool {
    a <= b
}

pub fn walk_rtree(b: &[u8], le: bool, index_off: u64) -> Result<TreeInfo, String> {
    let r = Rd { b, le };
    let o = index_off as usize;
    if r.u32(o)? != 0x2468_ACE0 {
        return Err(format!("bad R-tree magic at {}", o));
    }
    let mut t = TreeInfo {
        block_size: r.u32(o + 4)?,
        item_count: r.u64(o + 8)?,
        bounds: (r.u32(o + 16)?, r.u32(o + 20)?, r.u32(o + 24)?, r.u32(o + 28)?),
        end_file_offset: r.u64(o + 32)?,
        items_per_slot: r.u32(o + 40)?,
        ..Default::default()
    };
    // returns the (start, end) span actually covered beneath this node
    fn node(r: &Rd, off: usize, depth: usize, t: &mut TreeInfo) -> Result<Option<((u32, u32), (u32, u32))>, String> {
        if depth > 40 {
            return Err("R-tree deeper than 40".into());
        }
        t.node_count += 1;
        t.depth = t.depth.max(depth + 1);
        let leaf = r.u8(off)?;
        if leaf > 1 {
            return Err(format!("R-tree node at {} has isLeaf={}", off, leaf));
        }
        let count = r.u16(off + 2)? as usize;
        if t.last_node_fill.len() <= depth {
            t.last_node_fill.resize(depth + 1, 0);
        }
        t.last_node_fill[depth] = count;
        if count == 0 {
            t.problems.push(format!("empty node at {}", off));
        }
        if count > t.block_size as usize {
            t.problems.push(format!("node at {} has {} items > blockSize {}", off, count, t.block_size));
        }
        let mut span: Option<((u32, u32), (u32, u32))> = None;
        let mut merge = |s: (u32, u32), e: (u32, u32)| {
            span = Some(match span {
                None => (s, e),
                Some((a, b)) => (a.min(s), b.max(e)),
            });
        };
        if leaf == 1 {
            for i in 0..count {
                let io = off + 4 + i * 32;
                let l = Leaf { sc: r.u32(io)?, sb: r.u32(io + 4)?, ec: r.u32(io + 8)?, eb: r.u32(io + 12)?, off: r.u64(io + 16)?, size: r.u64(io + 24)? };
                merge((l.sc, l.sb), (l.ec, l.eb));
                t.leaves.push(l);
            }
        } else {
            for i in 0..count {
                let io = off + 4 + i * 24;
                let (sc, sb, ec, eb, child) = (r.u32(io)?, r.u32(io + 4)?, r.u32(io + 8)?, r.u32(io + 12)?, r.u64(io + 16)?);
                let sub = node(r, child as usize, depth + 1, t)?;
                if let Some((s, e)) = sub {
                    if !(le_pos((sc, sb), s) && le_pos(e, (ec, eb))) {
                        t.problems.push(format!(
                            "non-leaf entry at {} span ({},{})-({},{}) does not contain its subtree ({},{})-({},{})",
                            io, sc, sb, ec, eb, s.0, s.1, e.0, e.1
                        ));
                    }
                }
                merge((sc, sb), (ec, eb));
                if let Some((s, e)) = sub {
                    merge(s, e);
                }
            }
        }
        Ok(span)
    }
    let span = node(&r, o + 48, 0, &mut t)?;
    if let Some((s, e)) = span {
        let (hs, he) = ((t.bounds.0, t.bounds.1), (t.bounds.2, t.bounds.3));
        if !(le_pos(hs, s) && le_pos(e, he)) {
            t.problems.push(format!(
                "index header bounds ({},{})-({},{}) do not contain the leaves ({},{})-({},{})",
                hs.0, hs.1, he.0, he.1, s.0, s.1, e.0, e.1
            ));
        }
    }
    if t.item_count != t.leaves.len() as u64 {
        t.problems.push(format!("index itemCount {} != leaves {}", t.item_count, t.leaves.len()));
    }
    Ok(t)
}

/// Descent that prunes by node spans with the inclusive overlap test readers use.
pub fn pruned_search(b: &[u8], le: bool, index_off: u64, chrom: u32, s: u32, e: u32) -> Result<Vec<Leaf>, String> {
    let r = Rd { b, le };
    let mut out = vec![];
    fn ov(chrom: u32, s: u32, e: u32, sc: u32, sb: u32, ec: u32, eb: u32) -> bool {
        (chrom, s) <= (ec, eb) && (chrom, e) >= (sc, sb)
    }
    fn node(r: &Rd, off: usize, q: (u32, u32, u32), out: &mut Vec<Leaf>, depth: usize) -> Result<(), String> {
        if depth > 40 {
            return Err("R-tree deeper than 40".into());
        }
        let leaf = r.u8(off)?;
        let count = r.u16(off + 2)? as usize;
        for i in 0..count {
            if leaf == 1 {
                let io = off + 4 + i * 32;
                let l = Leaf { sc: r.u32(io)?, sb: r.u32(io + 4)?, ec: r.u32(io + 8)?, eb: r.u32(io + 12)?, off: r.u64(io + 16)?, size: r.u64(io + 24)? };
                if ov(q.0, q.1, q.2, l.sc, l.sb, l.ec, l.eb) {
                    out.push(l);
                }
            } else {
                let io = off + 4 + i * 24;
                if ov(q.0, q.1, q.2, r.u32(io)?, r.u32(io + 4)?, r.u32(io + 8)?, r.u32(io + 12)?) {
                    node(r, r.u64(io + 16)? as usize, q, out, depth + 1)?;
                }
            }
        }
        Ok(())
    }
    node(&r, index_off as usize + 48, (chrom, s, e), &mut out, 0)?;
    Ok(out)
}

pub fn block_bytes(b: &[u8], h: &Hdr, l: &Leaf) -> Result<Vec<u8>, String> {
    let r = Rd { b, le: h.le };
    r.need(l.off as usize, l.size as usize)?;
    let raw = &b[l.off as usize..(l.off + l.size) as usize];
    if h.uncompress_buf_size == 0 {
        return Ok(raw.to_vec());
    }
    let mut d = libdeflater::Decompressor::new();
    let mut cap = (h.uncompress_buf_size as usize).max(64);
    for _ in 0..8 {
        let mut out = vec![0u8; cap];
        match d.zlib_decompress(raw, &mut out) {
            Ok(n) => {
                if n > h.uncompress_buf_size as usize {
                    return Err(format!("block at {} inflates to {} > uncompressBufSize {}", l.off, n, h.uncompress_buf_size));
                }
                out.truncate(n);
                return Ok(out);
            }
            Err(libdeflater::DecompressionError::InsufficientSpace) => cap *= 4,
            Err(e) => return Err(format!("block at {} is not a zlib stream: {:?}", l.off, e)),
        }
    }
    Err(format!("block at {} inflates to more than {} bytes", l.off, cap))
}

#[derive(Debug, Clone, Copy)]
pub struct ZRec {
    pub chrom: u32,
    pub start: u32,
    pub end: u32,
    pub valid: u32,
    pub min: f32,
    pub max: f32,
    pub sum: f32,
    pub sumsq: f32,
}

pub fn zoom_block(b: &[u8], h: &Hdr, l: &Leaf) -> Result<Vec<ZRec>, String> {
    let d = block_bytes(b, h, l)?;
    if d.len() % 32 != 0 {
        return Err(format!("zoom block at {} has {} bytes (not a multiple of 32)", l.off, d.len()));
    }
    let r = Rd { b: &d, le: h.le };
    let mut out = vec![];
    for i in 0..d.len() / 32 {
        let o = i * 32;
        out.push(ZRec {
            chrom: r.u32(o)?,
            start: r.u32(o + 4)?,
            end: r.u32(o + 8)?,
            valid: r.u32(o + 12)?,
            min: r.f32(o + 16)?,
            max: r.f32(o + 20)?,
            sum: r.f32(o + 24)?,
            sumsq: r.f32(o + 28)?,
        });
    }
    Ok(out)
}

/// (chrom id, section start, section end, items)
pub fn bw_block(b: &[u8], h: &Hdr, l: &Leaf) -> Result<(u32, u32, u32, Vec<Value>), String> {
    let d = block_bytes(b, h, l)?;
    let r = Rd { b: &d, le: h.le };
    let chrom = r.u32(0)?;
    let (start, end, step, span, ty, count) = (r.u32(4)?, r.u32(8)?, r.u32(12)?, r.u32(16)?, r.u8(20)?, r.u16(22)? as usize);
    let mut v = vec![];
    match ty {
        1 => {
            for i in 0..count {
                let o = 24 + i * 12;
                v.push(Value { start: r.u32(o)?, end: r.u32(o + 4)?, value: r.f32(o + 8)? });
            }
            if d.len() != 24 + count * 12 {
                return Err(format!("bedGraph section at {}: {} bytes for {} items", l.off, d.len(), count));
            }
        }
        2 => {
            for i in 0..count {
                let o = 24 + i * 8;
                let s = r.u32(o)?;
                v.push(Value { start: s, end: s + span, value: r.f32(o + 4)? });
            }
        }
        3 => {
            for i in 0..count {
                let s = start + step * i as u32;
                v.push(Value { start: s, end: s + span, value: r.f32(24 + i * 4)? });
            }
        }
        t => return Err(format!("unknown section type {}", t)),
    }
    Ok((chrom, start, end, v))
}

pub fn bb_block(b: &[u8], h: &Hdr, l: &Leaf) -> Result<Vec<(u32, BedEntry)>, String> {
    let d = block_bytes(b, h, l)?;
    let r = Rd { b: &d, le: h.le };
    let mut o = 0;
    let mut out = vec![];
    while o < d.len() {
        let (c, s, e) = (r.u32(o)?, r.u32(o + 4)?, r.u32(o + 8)?);
        o += 12;
        let nul = d[o..].iter().position(|x| *x == 0).ok_or_else(|| format!("bigBed record in block at {} lacks a NUL terminator", l.off))?;
        let rest = String::from_utf8(d[o..o + nul].to_vec()).map_err(|_| "rest not utf-8".to_string())?;
        o += nul + 1;
        out.push((c, BedEntry { start: s, end: e, rest }));
    }
    Ok(out)
}

pub struct Summ {
    pub bases: u64,
    pub min: f64,
    pub max: f64,
    pub sum: f64,
    pub sumsq: f64,
}
pub fn total_summary(b: &[u8], h: &Hdr) -> Result<Summ, String> {
    let r = Rd { b, le: h.le };
    let o = h.total_summary_off as usize;
    Ok(Summ { bases: r.u64(o)?, min: r.f64(o + 8)?, max: r.f64(o + 16)?, sum: r.f64(o + 24)?, sumsq: r.f64(o + 32)? })
}
pub fn data_count(b: &[u8], h: &Hdr) -> Result<u64, String> {
    Rd { b, le: h.le }.u64(h.full_data_off as usize)
}
