//! C13: unrepresentable input is refused with an error; every write call terminates.
use crate::cases::rt::{gen_bb_case, gen_bw_case, BbGenCfg, BwGenCfg};
use crate::gen::*;
use crate::proto::{Ctx, Outcome};
use crate::sink::MemSink;
use crate::util::{Fnv, Rng, J};
use crate::wr::{self, CallResult};
use bigtools::{BedEntry, BigBedRead, BigWigRead, Value};
use std::collections::HashMap;
use std::io::Cursor;

pub const BW_CLASSES: &[&str] = &[
    "out_of_order_values",
    "overlapping_values",
    "start_gt_end",
    "end_gt_chrom_length",
    "unknown_chromosome",
    "chromosomes_out_of_order_under_ALL",
    "stray_line_of_other_chromosome",
    "malformed_line_missing_field",
    "malformed_line_non_numeric",
    "malformed_line_negative",
    "malformed_line_blank",
    "malformed_line_empty_chromosome_field",
    "empty_input",
    "valid:only_zero_length_items_whole_file",
    "valid:only_zero_length_items_one_chromosome",
    "valid:single_item",
    "valid:items_only_at_position_0",
    "valid:generated",
];
pub const BB_CLASSES: &[&str] = &[
    "out_of_order_starts",
    "start_gt_end",
    "start_ge_chrom_length",
    "unknown_chromosome",
    "chromosomes_out_of_order_under_ALL",
    "stray_line_of_other_chromosome",
    "malformed_line_missing_field",
    "malformed_line_non_numeric",
    "malformed_line_negative",
    "malformed_line_blank",
    "malformed_line_empty_chromosome_field",
    "empty_input",
    "valid:only_zero_length_items_whole_file",
    "valid:only_zero_length_items_one_chromosome",
    "valid:single_item",
    "valid:items_only_at_position_0",
    "valid:generated",
];

fn pick_pos(r: &mut Rng, n: usize) -> (usize, &'static str) {
    match r.below(3) {
        0 => (0, "first"),
        1 => (n / 2, "middle"),
        _ => (n - 1, "last"),
    }
}

/// After a refusal the sink must not pass for a complete file with data missing.
fn check_sink_after_refusal(out: &mut Outcome, bytes: &[u8], is_bw: bool, class: &str) {
    let r = wr::guard(|| -> Result<bool, String> {
        if is_bw {
            let mut rd = match BigWigRead::open(Cursor::new(bytes.to_vec())) {
                Ok(r) => r,
                Err(_) => return Ok(false),
            };
            let chroms: Vec<(String, u32)> = rd.chroms().iter().map(|c| (c.name.clone(), c.length)).collect();
            for (n, l) in chroms {
                for v in rd.get_interval(&n, 0, l).map_err(|e| e.to_string())? {
                    v.map_err(|e| e.to_string())?;
                }
            }
            Ok(true)
        } else {
            let mut rd = match BigBedRead::open(Cursor::new(bytes.to_vec())) {
                Ok(r) => r,
                Err(_) => return Ok(false),
            };
            let chroms: Vec<(String, u32)> = rd.chroms().iter().map(|c| (c.name.clone(), c.length)).collect();
            for (n, l) in chroms {
                for v in rd.get_interval(&n, 0, l).map_err(|e| e.to_string())? {
                    v.map_err(|e| e.to_string())?;
                }
            }
            Ok(true)
        }
    });
    if let Ok(Ok(true)) = r {
        out.viol("refused_input_left_a_file_that_opens_and_reads", class, J::obj().set("bytes", bytes.len().into()));
    } else {
        out.count("sink_rejected_after_refusal", 1);
    }
}

pub fn c13(ctx: &Ctx, begin: &mut dyn FnMut(J)) -> Outcome {
    let mut r = Rng::derive(ctx.seed, 0xC13, ctx.case);
    let is_bw = ctx.case % 2 == 0;
    let classes = if is_bw { BW_CLASSES } else { BB_CLASSES };
    let class = classes[((ctx.case / 2) % classes.len() as u64) as usize];
    let mut out = Outcome::new();
    // base: a valid multi-chromosome input
    let mut opts;
    let mut flat_bw: Vec<(String, Value)> = vec![];
    let mut flat_bb: Vec<(String, BedEntry)> = vec![];
    let mut sizes: HashMap<String, u32> = HashMap::new();
    let mut chrom_ranges: Vec<(usize, usize)> = vec![]; // [lo,hi) per chromosome in flat
    if is_bw {
        let mut c;
        loop {
            c = gen_bw_case(&mut r, &BwGenCfg { allow_zero_len: class == "valid:generated", huge_ok: false, small_slots: true, allow_unsorted_chroms: false, max_chroms: 6, force_exact: false });
            if c.input.len() >= 3 || class.starts_with("valid:") {
                break;
            }
        }
        opts = c.opts;
        for (ch, vs) in &c.input {
            let lo = flat_bw.len();
            // need >= 2 items per chromosome so every position class exists
            let mut vs = vs.clone();
            if vs.len() < 3 && !class.starts_with("valid:") {
                vs = (0..4).map(|i| Value { start: i * 5, end: i * 5 + 3, value: i as f32 + 1.0 }).collect();
            }
            sizes.insert(ch.name.clone(), ch.size.max(30));
            for v in vs {
                flat_bw.push((ch.name.clone(), v));
            }
            chrom_ranges.push((lo, flat_bw.len()));
        }
    } else {
        let mut c;
        loop {
            c = gen_bb_case(&mut r, &BbGenCfg { allow_zero_len: class == "valid:generated", no_zero_zero: true, small_slots: true, max_chroms: 6, ncols: None });
            if c.input.len() >= 3 || class.starts_with("valid:") {
                break;
            }
        }
        opts = c.opts;
        // the bigBed generator sometimes shuffles chromosomes (sort type START); this check needs ALL order
        c.input.sort_by(|a, b| a.0.name.as_bytes().cmp(b.0.name.as_bytes()));
        for (ch, vs) in &c.input {
            let lo = flat_bb.len();
            let mut vs = vs.clone();
            if vs.len() < 3 && !class.starts_with("valid:") {
                vs = (0..4).map(|i| BedEntry { start: i * 5, end: i * 5 + 8, rest: "x".into() }).collect();
            }
            sizes.insert(ch.name.clone(), ch.size.max(40));
            for v in vs {
                flat_bb.push((ch.name.clone(), v));
            }
            chrom_ranges.push((lo, flat_bb.len()));
        }
    }
    if class == "chromosomes_out_of_order_under_ALL" {
        // the parallel source queues five chromosomes at a time: make sure disorder can also sit beyond them
        let mut extra: Vec<&str> = CHROM_POOL.iter().copied().filter(|n| !sizes.contains_key(*n)).collect();
        extra.sort_by(|a, b| a.as_bytes().cmp(b.as_bytes()));
        let mut names: Vec<String> = sizes.keys().cloned().collect();
        for n in extra {
            if names.len() >= 8 {
                break;
            }
            names.push(n.to_string());
            sizes.insert(n.to_string(), 500);
        }
        names.sort_by(|a, b| a.as_bytes().cmp(b.as_bytes()));
        // rebuild the flat lists in sorted chromosome order, keeping existing items
        let mut new_bw = vec![];
        let mut new_bb = vec![];
        chrom_ranges.clear();
        for n in &names {
            let lo = if is_bw { new_bw.len() } else { new_bb.len() };
            let mut have = false;
            if is_bw {
                for (c, v) in flat_bw.iter().filter(|(c, _)| c == n) {
                    new_bw.push((c.clone(), *v));
                    have = true;
                }
                if !have {
                    for i in 0..3u32 {
                        new_bw.push((n.clone(), Value { start: i * 5, end: i * 5 + 3, value: 1.0 + i as f32 }));
                    }
                }
                chrom_ranges.push((lo, new_bw.len()));
            } else {
                for (c, v) in flat_bb.iter().filter(|(c, _)| c == n) {
                    new_bb.push((c.clone(), v.clone()));
                    have = true;
                }
                if !have {
                    for i in 0..3u32 {
                        new_bb.push((n.clone(), BedEntry { start: i * 5, end: i * 5 + 8, rest: "x".into() }));
                    }
                }
                chrom_ranges.push((lo, new_bb.len()));
            }
        }
        if is_bw {
            flat_bw = new_bw;
        } else {
            flat_bb = new_bb;
        }
    }
    opts.sort_all = true;
    let nchrom = chrom_ranges.len();
    let (ci, cpos) = pick_pos(&mut r, nchrom);
    let (lo, hi) = chrom_ranges[ci];
    let (off, ipos) = pick_pos(&mut r, hi - lo);
    let mut idx = lo + off;
    let mut text_override: Option<String> = None;
    let mut coarse_index: Option<Vec<(u64, String)>> = None;
    let mut expect_err = true;
    let mut pos_desc = format!("{}_item_of_{}_chromosome", ipos, cpos);
    macro_rules! both {
        ($bw:expr, $bb:expr) => {
            if is_bw {
                $bw
            } else {
                $bb
            }
        };
    }
    match class {
        "out_of_order_values" | "out_of_order_starts" => {
            // item idx gets a start smaller than its predecessor's (needs a predecessor)
            if idx == lo {
                idx = lo + 1;
            }
            both!(
                {
                    let p = flat_bw[idx - 1].1;
                    // ensure predecessor starts > 0 so something smaller exists
                    if p.start == 0 {
                        flat_bw[idx - 1].1.start = 1;
                        flat_bw[idx - 1].1.end = flat_bw[idx - 1].1.end.max(2);
                    }
                    let ps = flat_bw[idx - 1].1.start;
                    flat_bw[idx].1 = Value { start: ps - 1, end: ps, value: 1.0 };
                },
                {
                    if flat_bb[idx - 1].1.start == 0 {
                        flat_bb[idx - 1].1.start = 1;
                        flat_bb[idx - 1].1.end = flat_bb[idx - 1].1.end.max(2);
                    }
                    let ps = flat_bb[idx - 1].1.start;
                    flat_bb[idx].1 = BedEntry { start: ps - 1, end: ps + 3, rest: flat_bb[idx].1.rest.clone() };
                }
            );
        }
        "overlapping_values" => {
            if idx == lo {
                idx = lo + 1;
            }
            let p = flat_bw[idx - 1].1;
            if p.end > p.start {
                flat_bw[idx].1.start = p.end - 1;
                flat_bw[idx].1.end = flat_bw[idx].1.end.max(p.end + 1);
            } else {
                flat_bw[idx - 1].1.end = p.start + 2;
                flat_bw[idx].1.start = p.start + 1;
                flat_bw[idx].1.end = flat_bw[idx].1.end.max(p.start + 3);
            }
        }
        "start_gt_end" => both!(
            {
                let v = &mut flat_bw[idx].1;
                v.start = v.end + 1;
            },
            {
                let v = &mut flat_bb[idx].1;
                v.start = v.end + 1;
            }
        ),
        "end_gt_chrom_length" => {
            let size = sizes[&flat_bw[idx].0];
            flat_bw[idx].1.end = size + 1 + r.below(5) as u32;
            // keep it from being an overlap with the successor instead: truncate the chromosome after it
            let name = flat_bw[idx].0.clone();
            let mut k = idx + 1;
            while k < flat_bw.len() && flat_bw[k].0 == name {
                flat_bw.remove(k);
            }
            let _ = &mut k;
            pos_desc = format!("{}_chromosome", cpos);
        }
        "start_ge_chrom_length" => {
            let size = sizes[&flat_bb[idx].0];
            let name = flat_bb[idx].0.clone();
            flat_bb[idx].1.start = size + r.below(3) as u32;
            flat_bb[idx].1.end = flat_bb[idx].1.start + 2;
            let mut k = idx + 1;
            while k < flat_bb.len() && flat_bb[k].0 == name {
                flat_bb.remove(k);
            }
            pos_desc = format!("{}_chromosome", cpos);
        }
        "unknown_chromosome" => {
            let name = both!(flat_bw[idx].0.clone(), flat_bb[idx].0.clone());
            sizes.remove(&name);
            pos_desc = format!("{}_chromosome", cpos);
        }
        "chromosomes_out_of_order_under_ALL" => {
            // move chromosome ci's run so that the order is violated: swap with a neighbour
            let cj = if ci + 1 < nchrom { ci + 1 } else { ci - 1 };
            let (a, b) = (ci.min(cj), ci.max(cj));
            both!(
                {
                    let (alo, ahi) = chrom_ranges[a];
                    let (blo, bhi) = chrom_ranges[b];
                    let mut v = flat_bw[..alo].to_vec();
                    v.extend_from_slice(&flat_bw[blo..bhi]);
                    v.extend_from_slice(&flat_bw[ahi..blo]);
                    v.extend_from_slice(&flat_bw[alo..ahi]);
                    v.extend_from_slice(&flat_bw[bhi..]);
                    flat_bw = v;
                },
                {
                    let (alo, ahi) = chrom_ranges[a];
                    let (blo, bhi) = chrom_ranges[b];
                    let mut v = flat_bb[..alo].to_vec();
                    v.extend_from_slice(&flat_bb[blo..bhi]);
                    v.extend_from_slice(&flat_bb[ahi..blo]);
                    v.extend_from_slice(&flat_bb[alo..ahi]);
                    v.extend_from_slice(&flat_bb[bhi..]);
                    flat_bb = v;
                }
            );
            pos_desc = format!("{}_chromosome", cpos);
        }
        "stray_line_of_other_chromosome" => {
            // one line of another chromosome in the middle (or at the end) of chromosome ci's run: under sort type
            // ALL the file is not sorted. Text sources only. For the parallel source the index is either the real
            // index_chroms result or, half of the time, a *coarse* index listing only the main runs -- what
            // index_chroms returns for a large file whose bisection never lands on the stray line -- so that the
            // per-chromosome reader task's own "line of another chromosome" refusal is what has to catch it.
            if opts.source == Source::Serial {
                opts.source = if r.chance(1, 3) { Source::SerialText } else { Source::Parallel };
            }
            both!(fix_sorted_bw(&mut flat_bw), fix_sorted_bb(&mut flat_bb));
            let mut lines: Vec<String> = both!(
                flat_bw.iter().map(|(c, v)| format!("{}\t{}\t{}\t{:?}", c, v.start, v.end, v.value)).collect(),
                flat_bb.iter().map(|(c, v)| if v.rest.is_empty() { format!("{}\t{}\t{}", c, v.start, v.end) } else { format!("{}\t{}\t{}\t{}", c, v.start, v.end, v.rest) }).collect()
            );
            let names: Vec<String> = chrom_ranges.iter().map(|(lo, _)| both!(flat_bw[*lo].0.clone(), flat_bb[*lo].0.clone())).collect();
            let cj = if ci + 1 < nchrom { ci + 1 } else { ci - 1 };
            let stray = if is_bw { format!("{}\t0\t1\t1.0", names[cj]) } else { format!("{}\t0\t1", names[cj]) };
            // strictly inside the run: before its first line or after its last one the stray line could simply join
            // the neighbouring chromosome's run and leave a valid file
            let at = (idx + 1).max(lo + 1).min(hi - 1);
            lines.insert(at, stray);
            let mut offs = vec![];
            let mut o = 0u64;
            for l in &lines {
                offs.push(o);
                o += l.len() as u64 + 1;
            }
            if opts.source == Source::Parallel && r.chance(1, 2) {
                coarse_index = Some(chrom_ranges.iter().enumerate().map(|(k, (rlo, _))| (offs[if *rlo >= at { rlo + 1 } else { *rlo }], names[k].clone())).collect());
                out.tag("parallel_source_with_coarse_index");
            }
            text_override = Some(lines.join("\n") + "\n");
            pos_desc = format!("inside_run_of_{}_chromosome", cpos);
        }
        c if c.starts_with("malformed_line") => {
            // text sources only
            if opts.source == Source::Serial {
                opts.source = if r.chance(1, 2) { Source::SerialText } else { Source::Parallel };
            }
            let mut lines: Vec<String> = both!(
                flat_bw.iter().map(|(c, v)| format!("{}\t{}\t{}\t{:?}", c, v.start, v.end, v.value)).collect(),
                flat_bb.iter().map(|(c, v)| if v.rest.is_empty() { format!("{}\t{}\t{}", c, v.start, v.end) } else { format!("{}\t{}\t{}\t{}", c, v.start, v.end, v.rest) }).collect()
            );
            let f: Vec<String> = lines[idx].split('\t').map(|s| s.to_string()).collect();
            lines[idx] = match c {
                "malformed_line_missing_field" => {
                    if is_bw {
                        f[..3].join("\t")
                    } else {
                        f[..2].join("\t")
                    }
                }
                "malformed_line_non_numeric" => {
                    let mut g = f.clone();
                    let k = if is_bw { 1 + r.below(3) as usize } else { 1 + r.below(2) as usize };
                    g[k] = "abc".into();
                    g.join("\t")
                }
                // a blank (or white-space only) line in the middle of the data is not "end of input"
                "malformed_line_blank" => (if r.chance(1, 2) { "" } else { "  " }).to_string(),
                "malformed_line_empty_chromosome_field" => {
                    let mut g = f.clone();
                    g[0] = String::new();
                    g.join("\t")
                }
                _ => {
                    let mut g = f.clone();
                    let k = 1 + r.below(2) as usize;
                    g[k] = format!("-{}", g[k]);
                    g.join("\t")
                }
            };
            if matches!(c, "malformed_line_blank" | "malformed_line_empty_chromosome_field") && idx + 1 == lines.len() {
                // as the very last line this is merely trailing white space; keep at least one data line after it
                let last = lines.len() - 1;
                lines.swap(last - 1, last);
            }
            text_override = Some(lines.join("\n") + "\n");
        }
        "empty_input" => {
            flat_bw.clear();
            flat_bb.clear();
            if opts.source != Source::Serial && r.chance(1, 2) {
                text_override = Some(String::new());
            } else {
                opts.source = Source::Serial;
            }
            pos_desc = "whole_input".into();
        }
        "valid:only_zero_length_items_whole_file" => {
            expect_err = false;
            both!(
                for (c, v) in flat_bw.iter_mut() {
                    let p = v.start.min(sizes[c]);
                    *v = Value { start: p, end: p, value: v.value };
                },
                for (c, v) in flat_bb.iter_mut() {
                    let p = v.start.min(sizes[c] - 1).max(1);
                    v.start = p;
                    v.end = p;
                }
            );
            // keep starts sorted within a chromosome
            both!(fix_sorted_bw(&mut flat_bw), fix_sorted_bb(&mut flat_bb));
            pos_desc = "whole_input".into();
        }
        "valid:only_zero_length_items_one_chromosome" => {
            expect_err = false;
            both!(
                for k in lo..hi {
                    let p = flat_bw[k].1.start;
                    flat_bw[k].1.end = p;
                },
                for k in lo..hi {
                    let p = flat_bb[k].1.start.max(1);
                    flat_bb[k].1.start = p;
                    flat_bb[k].1.end = p;
                }
            );
            both!(fix_sorted_bw(&mut flat_bw), fix_sorted_bb(&mut flat_bb));
            pos_desc = format!("{}_chromosome", cpos);
        }
        "valid:single_item" => {
            expect_err = false;
            both!(flat_bw.truncate(1), flat_bb.truncate(1));
            pos_desc = "whole_input".into();
        }
        "valid:items_only_at_position_0" => {
            expect_err = false;
            both!(
                {
                    let mut seen = std::collections::HashSet::new();
                    flat_bw.retain(|(c, _)| seen.insert(c.clone()));
                    for (_, v) in flat_bw.iter_mut() {
                        *v = Value { start: 0, end: 1, value: v.value };
                    }
                },
                {
                    let mut seen = std::collections::HashSet::new();
                    flat_bb.retain(|(c, _)| seen.insert(c.clone()));
                    for (_, v) in flat_bb.iter_mut() {
                        v.start = 0;
                        v.end = 1;
                    }
                }
            );
            pos_desc = "whole_input".into();
        }
        _ => {
            expect_err = false;
            pos_desc = "whole_input".into();
        }
    }
    let kind = if is_bw { "bigwig" } else { "bigbed" };
    let src = match opts.source {
        Source::Serial => "serial_iter",
        Source::SerialText => "serial_text",
        Source::Parallel => "parallel",
    };
    let pass = if opts.multipass { "two_pass" } else { "one_pass" };
    let mut f = Fnv::new();
    f.str(class);
    f.str(kind);
    f.str(src);
    f.str(pass);
    f.str(&pos_desc);
    out.hash = f.hex();
    out.nontrivial = true;
    out.tag(format!("{}:{}", kind, class));
    out.tag(format!("source={}", src));
    out.tag(pass);
    out.set_add("cells", format!("{}|{}|{}|{}|{}", kind, class, src, pass, pos_desc));
    begin(
        J::obj()
            .set("kind", kind.into())
            .set("class", class.into())
            .set("position", J::s(pos_desc.clone()))
            .set("opts", opts.to_json())
            .set("expect", if expect_err { "Err" } else { "returns" }.into())
            .set(
                "input",
                match &text_override {
                    Some(t) => J::s(wr::truncate(t, 1500)),
                    None => both!(
                        J::A(flat_bw.iter().take(80).map(|(c, v)| J::A(vec![J::s(c.clone()), v.start.into(), v.end.into(), J::s(format!("{:?}", v.value))])).collect()),
                        J::A(flat_bb.iter().take(80).map(|(c, v)| J::A(vec![J::s(c.clone()), v.start.into(), v.end.into(), J::s(wr::truncate(&v.rest, 20))])).collect())
                    ),
                },
            )
            .set("chrom_sizes", J::A(sizes.iter().map(|(k, v)| J::A(vec![J::s(k.clone()), (*v).into()])).collect())),
    );
    let sink = MemSink::new();
    let res = if let Some(text) = &text_override {
        write_text(sink.clone(), text, is_bw, sizes.clone(), &opts, &ctx.scratch, coarse_index.clone())
    } else if is_bw {
        wr::write_bw_flat(sink.clone(), flat_bw.clone(), sizes.clone(), &opts, Some(&ctx.scratch))
    } else {
        wr::write_bb_flat(sink.clone(), flat_bb.clone(), sizes.clone(), &opts, None, Some(&ctx.scratch))
    };
    let site = format!("{}:{}:{}", kind, class, src);
    match (&res, expect_err) {
        (CallResult::Err(e), _) if e.starts_with("HARNESS") => out.inconclusive = Some(e.clone()),
        (CallResult::Err(_), true) => {
            out.count("refused_with_error", 1);
            check_sink_after_refusal(&mut out, &sink.bytes(), is_bw, class);
        }
        (CallResult::Ok, true) => out.viol("invalid_input_accepted", site, J::obj().set("position", J::s(pos_desc))),
        (CallResult::Panic(p), true) => out.viol("invalid_input_panicked", format!("{}:{}", site, wr::panic_site(p)), J::A(p.iter().cloned().map(J::S).collect())),
        (CallResult::Ok, false) => out.count("valid_returned_ok", 1),
        (CallResult::Err(e), false) => {
            if e.starts_with("INDEX_") || e.contains("File is not sorted") {
                out.inconclusive = Some(format!("blocked_by:C18 {}", e));
            } else {
                // returning an error is "returns" for this property; whether the error is right is C01/C02's business
                out.count("valid_returned_err", 1);
                out.tag(format!("valid_input_refused:{}", class));
            }
        }
        (CallResult::Panic(p), false) => out.viol(
            if cfg!(debug_assertions) && p.iter().any(|m| m.contains("assertion")) { "debug_assertion_on_valid_input" } else { "valid_input_panicked" },
            format!("{}:{}:{}", kind, class, wr::panic_site(p)),
            J::A(p.iter().cloned().map(J::S).collect()),
        ),
    }
    out
}

fn fix_sorted_bw(v: &mut Vec<(String, Value)>) {
    // within each chromosome keep starts non-decreasing and non-overlapping
    let mut i = 1;
    while i < v.len() {
        if v[i].0 == v[i - 1].0 && v[i].1.start < v[i - 1].1.end {
            let e = v[i - 1].1.end;
            let len = v[i].1.end - v[i].1.start;
            v[i].1.start = e;
            v[i].1.end = e + len;
        }
        i += 1;
    }
}
fn fix_sorted_bb(v: &mut Vec<(String, BedEntry)>) {
    let mut i = 1;
    while i < v.len() {
        if v[i].0 == v[i - 1].0 && v[i].1.start < v[i - 1].1.start {
            let s = v[i - 1].1.start;
            let len = v[i].1.end - v[i].1.start;
            v[i].1.start = s;
            v[i].1.end = s + len;
        }
        i += 1;
    }
}

/// Text-source write with an arbitrary (possibly malformed) text.
fn write_text(sink: MemSink, text: &str, is_bw: bool, sizes: HashMap<String, u32>, o: &WOpts, scratch: &std::path::Path, given_index: Option<Vec<(u64, String)>>) -> CallResult {
    use bigtools::bed::bedparser::{parse_bed, parse_bedgraph};
    use bigtools::bed::indexer::index_chroms;
    use bigtools::beddata::{BedParserParallelStreamingIterator, BedParserStreamingIterator};
    use bigtools::{BigBedWrite, BigWigWrite};
    let path = wr::scratch_file(scratch, "txt");
    if let Err(e) = std::fs::write(&path, text) {
        return CallResult::Err(format!("HARNESS {}", e));
    }
    let opts = wr::bbi_options(o);
    let allow = !o.sort_all;
    let res = wr::guard(|| -> Result<(), String> {
        let runtime = wr::make_runtime(o.workers);
        macro_rules! go {
            ($w:expr, $from_file:ident, $parse:ident) => {{
                let mut w = $w;
                w.options = opts.clone();
                if o.source == Source::Parallel {
                    let idx = match &given_index {
                        Some(i) => i.clone(),
                        None => match index_chroms(std::fs::File::open(&path).map_err(|e| format!("HARNESS {}", e))?) {
                            Ok(Some(i)) => i,
                            Ok(None) => return Err("INDEX_NONE".to_string()),
                            Err(e) => return Err(format!("INDEX_ERR: {}", e)),
                        },
                    };
                    if o.multipass {
                        w.write_multipass(|| Ok(BedParserParallelStreamingIterator::new(idx.clone(), allow, path.clone(), $parse)), runtime).map_err(|e| e.to_string())
                    } else {
                        w.write(BedParserParallelStreamingIterator::new(idx, allow, path.clone(), $parse), runtime).map_err(|e| e.to_string())
                    }
                } else if o.multipass {
                    w.write_multipass(|| Ok(BedParserStreamingIterator::$from_file(std::fs::File::open(&path)?, allow)), runtime).map_err(|e| e.to_string())
                } else {
                    w.write(BedParserStreamingIterator::$from_file(std::fs::File::open(&path).map_err(|e| format!("HARNESS {}", e))?, allow), runtime).map_err(|e| e.to_string())
                }
            }};
        }
        if is_bw {
            go!(BigWigWrite::new(sink, sizes), from_bedgraph_file, parse_bedgraph)
        } else {
            go!(BigBedWrite::new(sink, sizes), from_bed_file, parse_bed)
        }
    });
    let _ = std::fs::remove_file(&path);
    match res {
        Ok(Ok(())) => CallResult::Ok,
        Ok(Err(e)) => CallResult::Err(e),
        Err(p) => CallResult::Panic(p),
    }
}
