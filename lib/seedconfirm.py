#!/usr/bin/env python3
"""Confirm a seeded change in its scratch worktree, then keep it under /verif/seeded/<name>/.

usage: seedconfirm.py <worktree> <name>
Steps (all in the worktree, with its own target dir): demo passes on the clean checkout; with the patch applied the
workspace test suite passes and the demo fails. Only Rust integration-test demos (demo.rs) and shell demos (demo.sh)
are handled automatically.
"""
import json
import os
import shutil
import subprocess
import sys


def sh(cmd, cwd, timeout=3000, env=None):
    e = dict(os.environ)
    if env:
        e.update(env)
    p = subprocess.run(cmd, shell=True, cwd=cwd, capture_output=True, text=True, timeout=timeout, env=e)
    return p.returncode, (p.stdout + p.stderr)


def main():
    wt, name = sys.argv[1], sys.argv[2]
    out = os.path.join(wt, "_out")
    env = {"CARGO_TARGET_DIR": os.path.join(wt, "target"), "CARGO_NET_OFFLINE": "true"}
    meta = json.load(open(os.path.join(out, "meta.json")))
    demo = meta.get("demo", "demo.rs").split()[0]
    sh("git checkout -- . ", wt)
    is_rs = demo.endswith(".rs")
    crate = "pybigtools" if "pybigtools" in open(os.path.join(out, "RUN.txt")).read() and "-p pybigtools" in open(os.path.join(out, "RUN.txt")).read() else "bigtools"

    append_mode = "--append-pybigtools" in sys.argv

    def run_demo():
        if append_mode:
            lib = os.path.join(wt, "pybigtools", "src", "lib.rs")
            orig = open(lib).read()
            open(lib, "w").write(orig + "\n" + open(os.path.join(out, demo)).read())
            try:
                rc, o = sh("timeout 2400 cargo test --offline -p pybigtools demo 2>&1 | tail -40", wt, env=env)
            finally:
                open(lib, "w").write(orig)
            ok = "test result: ok" in o and "FAILED" not in o
            return ok, o
        if is_rs:
            shutil.copyfile(os.path.join(out, demo), os.path.join(wt, crate, "tests", "demo.rs"))
            rc, o = sh("timeout 2400 cargo test --offline -p %s --test demo 2>&1 | tail -30" % crate, wt, env=env)
            ok = "test result: ok" in o and "test result: FAILED" not in o and "error: could not compile" not in o and "error[E" not in o
            return ok, o
        elif "--run-in-out" in sys.argv:
            # the demo script locates its helpers relative to itself and expects to live in <checkout>/_out
            rc, o = sh("bash -o pipefail -c 'timeout 2400 bash _out/%s 2>&1 | tail -30'" % demo, wt, env=env)
            return rc == 0, o
        else:
            shutil.copyfile(os.path.join(out, demo), os.path.join(wt, demo))
            rc, o = sh("bash -o pipefail -c 'timeout 2400 bash %s 2>&1 | tail -30'" % demo, wt, env=env)
            return rc == 0, o

    res = {}
    ok, o = run_demo()
    res["demo_passes_without_change"] = ok
    if not ok:
        print("demo does not pass on the clean checkout:\n", o[-1500:])
    rc, o = sh("git apply --whitespace=nowarn _out/patch.diff", wt)
    if rc != 0:
        print("patch does not apply", o)
        return 1
    # full suite without the demo file in place
    for f in (os.path.join(wt, crate, "tests", "demo.rs"), os.path.join(wt, demo)):
        if os.path.exists(f) and "_out" not in f:
            os.remove(f)
    rc, o = sh("timeout 2800 cargo test --workspace --no-fail-fast --offline 2>&1 | grep -E '^test result|FAILED|failed|^error' ", wt, env=env)
    passed = sum(int(l.split("ok. ")[1].split(" passed")[0]) for l in o.splitlines() if l.startswith("test result: ok."))
    failed = [l for l in o.splitlines() if "FAILED" in l or l.startswith("error")]
    res["tests_pass_with_change"] = (not failed) and passed >= 39
    res["tests_passed_count"] = passed
    ok, o2 = run_demo()
    res["demo_fails_with_change"] = not ok
    res["demo_failure_excerpt"] = "\n".join([l for l in o2.splitlines() if "panicked" in l or "assert" in l or "FAILED" in l][:6])[:1200]
    sh("git checkout -- . ", wt)
    for f in (os.path.join(wt, crate, "tests", "demo.rs"), os.path.join(wt, demo)):
        if os.path.exists(f) and "_out" not in f:
            os.remove(f)
    print(json.dumps(res, indent=1))
    good = res["demo_passes_without_change"] and res["tests_pass_with_change"] and res["demo_fails_with_change"]
    if good:
        dst = "/verif/seeded/%s" % name
        os.makedirs(dst, exist_ok=True)
        for f in os.listdir(out):
            shutil.copyfile(os.path.join(out, f), os.path.join(dst, f))
        meta["confirmed_by_builder"] = res
        meta["confirmation_commands"] = ["cargo test --offline -p %s --test demo (clean: pass; patched: fail)" % crate, "cargo test --workspace --no-fail-fast --offline (patched: %d passed, 0 failed)" % passed]
        json.dump(meta, open(os.path.join(dst, "meta.json"), "w"), indent=1)
        print("kept as", dst)
        return 0
    print("NOT kept")
    return 1


if __name__ == "__main__":
    sys.exit(main())
