"""Shared machinery for the checks that drive the BUILT COMMAND-LINE BINARIES
(C15 tool part, C16, C17 tool part) and judge them with text-level oracles.

* every tool invocation has a 30 s timeout (inputs are tiny; normal runs take ms);
* a case is a pure function of (seed, tier, index): it is generated, run and
  judged inside a worker process and returns a plain dict;
* a case that saw a timeout is re-run alone after the pool has drained; only a
  timeout that repeats becomes a `no_progress` violation, otherwise the re-run's
  verdict is used (tag `timed_out_once_then_finished`);
* an exception in the driver/oracle code is an *inconclusive* case, never a
  violation.
"""
import hashlib
import json
import math
import multiprocessing
import os
import shlex
import shutil
import struct
import subprocess
import time
import traceback

import build

TIMEOUT_S = 30
NPROC = 16
MAXTXT = 2048

_ENV = dict(os.environ)
_ENV["RUST_BACKTRACE"] = "0"
_ENV["RUST_LIB_BACKTRACE"] = "0"


# ----------------------------------------------------------------- numbers --
def f32(x):
    """Round a Python float to the nearest IEEE binary32 value (returned as float)."""
    try:
        return struct.unpack("<f", struct.pack("<f", x))[0]
    except OverflowError:
        return math.copysign(math.inf, x)


def fmt_f32(x):
    """Shortest decimal text that parses back to the binary32 value x."""
    x = f32(x)
    if x != x:
        return "nan"
    if x in (math.inf, -math.inf):
        return "inf" if x > 0 else "-inf"
    if x == 0:
        return "-0" if math.copysign(1.0, x) < 0 else "0"
    for p in range(1, 10):
        s = "%.*g" % (p, x)
        if f32(float(s)) == x:
            return s
    return repr(x)


def ulp32(x):
    """Spacing of binary32 numbers at |x|."""
    x = abs(x)
    if x == 0 or x < 2.0 ** -126:
        return 2.0 ** -149
    _, e = math.frexp(x)
    return 2.0 ** (e - 24)


def parse_f32(txt):
    """Parse a decimal the way a float32 reader does (decimal -> nearest binary32)."""
    return f32(float(txt))


# ------------------------------------------------------------- subprocess --
def bin_path(name):
    return build.bin_path(name)


class Run:
    __slots__ = ("argv", "cmdline", "rc", "out", "err", "timed_out", "wall")

    def panicked(self):
        """A panic of the process: exit status 101, or an abort/non-zero status with the main thread's panic message.
        (A 'panicked at' line from a *worker* thread while the process exits with an ordinary error status is a
        side effect of that error and is not counted as a panic of the tool.)"""
        if self.rc == 101:
            return True
        return self.rc not in (0, None) and "thread 'main'" in self.err and "panicked at" in self.err

    def brief(self):
        return dict(cmd=self.cmdline, rc=self.rc, timed_out=self.timed_out, stderr=self.err[:600])


def run(argv, cwd, stdin_path=None, timeout=TIMEOUT_S):
    """Run one tool invocation in `cwd`. argv[0] may be an absolute binary path or ./symlink."""
    r = Run()
    r.argv = list(argv)
    r.cmdline = shlex.join(argv) + ((" < " + shlex.quote(stdin_path)) if stdin_path else "")
    t0 = time.time()
    fin = None
    try:
        fin = open(os.path.join(cwd, stdin_path), "rb") if stdin_path else subprocess.DEVNULL
        p = subprocess.run(argv, cwd=cwd, stdin=fin, stdout=subprocess.PIPE, stderr=subprocess.PIPE, env=_ENV, timeout=timeout)
        r.rc, r.timed_out = p.returncode, False
        r.out = p.stdout
        r.err = p.stderr.decode("utf-8", "replace")
    except subprocess.TimeoutExpired as e:
        r.rc, r.timed_out = None, True
        r.out = e.stdout or b""
        r.err = (e.stderr or b"").decode("utf-8", "replace")
    finally:
        if fin not in (None, subprocess.DEVNULL):
            fin.close()
    r.wall = time.time() - t0
    return r


def symlink(cwd, name, target_bin="bigtools"):
    """Create ./<name> -> the multicall binary inside the case directory; returns './<name>'."""
    p = os.path.join(cwd, name)
    if not os.path.lexists(p):
        os.symlink(bin_path(target_bin), p)
    return "./" + name


def write(cwd, name, text):
    data = text if isinstance(text, bytes) else text.encode("utf-8")
    with open(os.path.join(cwd, name), "wb") as f:
        f.write(data)


def read(cwd, name):
    with open(os.path.join(cwd, name), "rb") as f:
        return f.read()


def exists(cwd, name):
    return os.path.exists(os.path.join(cwd, name))


def trunc(s, n=MAXTXT):
    if isinstance(s, bytes):
        s = s.decode("utf-8", "replace")
    if len(s) <= n:
        return s
    return s[:n] + "...[%d more chars]" % (len(s) - n)


def sha(*parts):
    h = hashlib.sha1()
    for p in parts:
        if not isinstance(p, bytes):
            p = (p if isinstance(p, str) else json.dumps(p, sort_keys=True, default=str)).encode("utf-8")
        h.update(p)
        h.update(b"\0")
    return h.hexdigest()[:24]


# ------------------------------------------------------------------- cases --
class Case:
    """Accumulates what one case saw. Turned into a plain dict for the parent."""

    def __init__(self, index):
        self.index = index
        self.desc = {}
        self.hash = None
        self.nontrivial = True
        self.tags = []
        self.counts = {}
        self.violations = []
        self.inconclusive = None
        self.blocked = None
        self.timeouts = []  # [(tool, cmdline)]
        self.notes = []
        self.opts = {}
        self.log = []  # command lines, in order, for the replay printout

    def count(self, k, n=1):
        self.counts[k] = self.counts.get(k, 0) + n

    def tag(self, *ts):
        for t in ts:
            if t not in self.tags:
                self.tags.append(t)

    def viol(self, cls, site, detail):
        # one alarm per signature per case
        for (c, s, _) in self.violations:
            if c == cls and s == site:
                return
        self.violations.append((cls, site, detail))

    def ran(self, r, tool):
        """Book-keeping common to every invocation. Returns False when the run timed out."""
        self.count("tool_invocations")
        self.log.append(r.cmdline + "   -> rc=%s%s" % (r.rc, " TIMEOUT" if r.timed_out else ""))
        if r.timed_out:
            self.timeouts.append((tool, r.cmdline))
            return False
        return True

    def as_dict(self):
        return dict(index=self.index, desc=self.desc, hash=self.hash, nontrivial=self.nontrivial, tags=self.tags, counts=self.counts,
                    violations=self.violations, inconclusive=self.inconclusive, blocked=self.blocked, timeouts=self.timeouts, notes=self.notes,
                    opts=self.opts, log=self.log)


def run_one(case_fn, seed, tier, index, scratch):
    """Run case_fn(case, seed, tier, index, cwd) in a fresh directory; never raises."""
    c = Case(index)
    cwd = os.path.join(scratch, "case_%d_%d_%d" % (seed, index, os.getpid()))
    try:
        shutil.rmtree(cwd, ignore_errors=True)
        os.makedirs(cwd)
        case_fn(c, seed, tier, index, cwd)
    except Exception:
        c.violations = []
        c.inconclusive = "driver exception: " + traceback.format_exc()[-800:]
    finally:
        shutil.rmtree(cwd, ignore_errors=True)
    return c.as_dict()


def _pool_entry(a):
    case_fn, seed, tier, index, scratch = a
    return run_one(case_fn, seed, tier, index, scratch)


def run_cases(leg, case_fn, indices, seed, tier, scratch, kind, nproc=NPROC, blocked_if=None):
    """Run the cases on a process pool, confirm timeouts alone, feed `leg` (a pyleg.PyLeg).

    case_fn must be a module-level function (it is sent to forked workers by name).
    """
    os.makedirs(scratch, exist_ok=True)
    indices = list(indices)
    results = {}
    ctx = multiprocessing.get_context("fork")
    if indices:
        with ctx.Pool(min(nproc, len(indices))) as pool:
            for d in pool.imap_unordered(_pool_entry, [(case_fn, seed, tier, i, scratch) for i in indices], chunksize=1):
                results[d["index"]] = d
    # timeouts: re-run alone, on an otherwise idle machine
    for i in sorted(results):
        d = results[i]
        if not d["timeouts"] or d["inconclusive"]:
            continue
        first = d["timeouts"]
        d2 = run_one(case_fn, seed, tier, i, scratch)
        if d2["timeouts"] and not d2["inconclusive"]:
            tool, cmdline = d2["timeouts"][0]
            d2["violations"] = [v for v in d2["violations"]] + [("no_progress", tool, dict(
                what="the invocation did not finish within %d s in the pooled run and again when the case was re-run alone" % TIMEOUT_S,
                command=cmdline, first_run_timeouts=[c for (_, c) in first], commands=d2["log"]))]
        else:
            d2["tags"] = list(d2["tags"]) + ["timed_out_once_then_finished"]
        results[i] = d2
    res = leg.res
    for i in sorted(results):
        d = results[i]
        viols = [tuple(v) for v in d["violations"]]
        leg.case(d["desc"], hash=d["hash"], nontrivial=d["nontrivial"], tags=d["tags"], counts=d["counts"], violations=viols,
                 inconclusive=d["inconclusive"], blocked=d["blocked"], replay={"kind": kind, "seed": seed, "tier": tier, "index": i}, case_id=i)
        for n in d["notes"]:
            if n not in res.notes and len(res.notes) < 20:
                res.notes.append(n)
        items = sorted((k, json.dumps(v)) for k, v in d["opts"].items())
        for k, v in items:
            res.opt_values[k].add(v)
        for a in range(len(items)):
            for b in range(a + 1, len(items)):
                res.opt_pairs.add((items[a], items[b]))
    return results


def replay_case(case_fn, j, scratch):
    """Generic replayer body: re-run (seed, tier, index), print, compare signatures."""
    rp = j["replay"]
    os.makedirs(scratch, exist_ok=True)
    d = run_one(case_fn, rp["seed"], rp["tier"], rp["index"], scratch)
    if d["timeouts"] and not d["inconclusive"]:
        d2 = run_one(case_fn, rp["seed"], rp["tier"], rp["index"], scratch)
        if d2["timeouts"]:
            d2["violations"] = list(d2["violations"]) + [("no_progress", d2["timeouts"][0][0], dict(command=d2["timeouts"][0][1]))]
        d = d2
    print("replay kind=%s seed=%s tier=%s index=%s" % (rp["kind"], rp["seed"], rp["tier"], rp["index"]))
    print("case:", json.dumps(d["desc"], ensure_ascii=False, default=str)[:3000])
    print("commands:")
    for line in d["log"]:
        print("   ", line)
    if d["inconclusive"]:
        print("inconclusive:", d["inconclusive"])
    sigs = []
    for (cls, site, detail) in d["violations"]:
        sig = cls + (":" + site if site else "")
        sigs.append(sig)
        print("violation:", sig)
        print("  detail:", json.dumps(detail, ensure_ascii=False, default=str)[:6000])
    want = j.get("signature")
    if want in sigs:
        print("VIOLATION property=%s signature=%s reproduced" % (j.get("property"), want))
        return 1
    print("signature %s did not reproduce (saw %s)" % (want, sigs or "no violation"))
    return 0
