//! The single process-wide hook callback. Modes are switched through globals.
use crate::util::J;
use std::cell::Cell;
use std::sync::atomic::{AtomicU64, AtomicUsize, Ordering};
use std::sync::Mutex;

pub static CASE: AtomicU64 = AtomicU64::new(u64::MAX);
/// 0 = no delays, 1 = random, 2 = slow producer (delay in update/drop/write_data),
/// 3 = slow consumer (delay in switch/await/chroms), 4 = yield only
pub static DELAY_POLICY: AtomicUsize = AtomicUsize::new(0);
pub static DELAY_SEED: AtomicU64 = AtomicU64::new(0);
/// whether events are appended to the shared trace (trace mode) or not (sanitizer mode)
pub static TRACE_ON: AtomicUsize = AtomicUsize::new(0);

#[derive(Clone, Debug)]
pub struct Ev {
    pub seq: u64,
    pub thread: u64,
    pub id: &'static str,
    pub a: u64,
    pub b: u64,
}

pub static TRACE: Mutex<Vec<Ev>> = Mutex::new(Vec::new());
pub static INVARIANT_FAILS: Mutex<Vec<String>> = Mutex::new(Vec::new());
static SEQ: AtomicU64 = AtomicU64::new(0);
static THREAD_IDS: AtomicU64 = AtomicU64::new(1);

thread_local! {
    static TID: Cell<u64> = Cell::new(0);
    static LOCAL_RNG: Cell<u64> = Cell::new(0);
}

fn tid() -> u64 {
    TID.with(|t| {
        if t.get() == 0 {
            t.set(THREAD_IDS.fetch_add(1, Ordering::Relaxed));
        }
        t.get()
    })
}

fn local_rand() -> u64 {
    LOCAL_RNG.with(|c| {
        let mut s = c.get();
        if s == 0 {
            s = DELAY_SEED.load(Ordering::Relaxed) ^ tid().wrapping_mul(0x9E37_79B9_7F4A_7C15) | 1;
        }
        // xorshift64*
        s ^= s >> 12;
        s ^= s << 25;
        s ^= s >> 27;
        c.set(s);
        s.wrapping_mul(0x2545_F491_4F6C_DD1D)
    })
}

pub fn set_case(k: u64) {
    CASE.store(k, Ordering::Relaxed);
}

pub fn set_policy(policy: usize, seed: u64, trace: bool) {
    DELAY_POLICY.store(policy, Ordering::Relaxed);
    DELAY_SEED.store(seed | 1, Ordering::Relaxed);
    TRACE_ON.store(trace as usize, Ordering::Relaxed);
    LOCAL_RNG.with(|c| c.set(0));
}

pub fn take_trace() -> Vec<Ev> {
    std::mem::take(&mut *TRACE.lock().unwrap_or_else(|e| e.into_inner()))
}
pub fn take_invariant_fails() -> Vec<String> {
    std::mem::take(&mut *INVARIANT_FAILS.lock().unwrap_or_else(|e| e.into_inner()))
}

fn is_producer_point(id: &str) -> bool {
    matches!(id, "tfb.update.pre_swap" | "tfb.update.post_swap" | "tfb.drop.pre_lock" | "bbi.write_data.pre_write" | "beddata.par.task_start")
}
fn is_consumer_point(id: &str) -> bool {
    matches!(id, "tfb.switch" | "tfb.await.pre_wait" | "bbi.chroms.pre_switch" | "bbi.chroms.pre_await")
}

fn delay(id: &'static str) {
    let policy = DELAY_POLICY.load(Ordering::Relaxed);
    if policy == 0 {
        return;
    }
    let r = local_rand();
    let do_sleep = |us: u64| std::thread::sleep(std::time::Duration::from_micros(us));
    match policy {
        1 => match r % 8 {
            0 | 1 => std::thread::yield_now(),
            2 => do_sleep(20 + (r >> 8) % 200),
            3 => do_sleep(200 + (r >> 8) % 1500),
            _ => {}
        },
        2 => {
            if is_producer_point(id) {
                do_sleep(100 + (r >> 8) % 900);
            }
        }
        3 => {
            if is_consumer_point(id) {
                do_sleep(200 + (r >> 8) % 2500);
            }
        }
        4 => std::thread::yield_now(),
        _ => {}
    }
}

fn callback(id: &'static str, a: u64, b: u64) {
    if std::env::var_os("BVH_DEBUG_TRACE").is_some() {
        eprintln!("HOOK {} {} {}", id, a, b);
    }
    match id {
        "rtree.level" => {
            if a > 64 {
                crate::proto::emit(
                    &J::obj()
                        .set("ev", "diverge".into())
                        .set("case", CASE.load(Ordering::Relaxed).into())
                        .set("what", "get_rtreeindex: more than 64 levels (empty level can never shrink to one node)".into()),
                );
                std::process::exit(77);
            }
            return;
        }
        "autosql.list" => {
            if a > b + 2 {
                crate::proto::emit(
                    &J::obj()
                        .set("ev", "diverge".into())
                        .set("case", CASE.load(Ordering::Relaxed).into())
                        .set("what", "autosql enum/set list: more values than input bytes".into()),
                );
                std::process::exit(77);
            }
            return;
        }
        "bw.zoom.step" | "bb.zoom.step" => {
            // invariant: the tiling cursor never moves back before the start of the value being added
            if a < b {
                let mut g = INVARIANT_FAILS.lock().unwrap_or_else(|e| e.into_inner());
                if g.len() < 8 {
                    g.push(format!("{}: add_start {} < value start {}", id, a, b));
                }
            }
            return;
        }
        _ => {}
    }
    delay(id);
    if TRACE_ON.load(Ordering::Relaxed) == 1 {
        let t = tid();
        let mut g = TRACE.lock().unwrap_or_else(|e| e.into_inner());
        let seq = SEQ.fetch_add(1, Ordering::Relaxed);
        if g.len() < 200_000 {
            g.push(Ev { seq, thread: t, id, a, b });
        }
    }
}

pub fn install() {
    #[cfg(bigtools_verif)]
    {
        bigtools::verif::install(Box::new(callback));
    }
    #[cfg(not(bigtools_verif))]
    {
        let _ = callback;
    }
}
