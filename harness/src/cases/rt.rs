//! C01 / C02 / C06: write through the public API into a sink, read back.
use crate::gen::*;
use crate::model;
use crate::proto::{Ctx, Outcome, Tier};
use crate::sink::MemSink;
use crate::util::{Fnv, Rng, J};
use crate::wr::{self, CallResult};
use bigtools::{BedEntry, BigBedRead, BigWigRead, Value};
use std::io::Cursor;

pub fn zoom_resolutions(o: &WOpts) -> Vec<u32> {
    match &o.zoom {
        Zoom::Manual(v) | Zoom::ManualWithMax(v, _) => v.clone(),
        Zoom::Auto { initial, .. } => vec![*initial, initial * 4, initial * 16],
    }
}

pub struct BwCase {
    pub input: BwInput,
    pub opts: WOpts,
    pub extra: Vec<(String, u32)>,
    pub hash: String,
    pub nontrivial: bool,
    pub tags: Vec<String>,
}

pub fn extra_chroms(r: &mut Rng, used: &[&str]) -> Vec<(String, u32)> {
    let mut v = vec![];
    let n = r.below(3);
    for _ in 0..n {
        let nm = *r.pick(CHROM_POOL);
        if !used.contains(&nm) && !v.iter().any(|(x, _): &(String, u32)| x == nm) {
            v.push((nm.to_string(), r.range(10, 5000) as u32));
        }
    }
    v
}

pub struct BwGenCfg {
    pub allow_zero_len: bool,
    pub huge_ok: bool,
    pub small_slots: bool,
    pub allow_unsorted_chroms: bool,
    pub max_chroms: usize,
    pub force_exact: bool,
}

pub fn gen_bw_case(r: &mut Rng, g: &BwGenCfg) -> BwCase {
    let mut opts = if g.small_slots { gen_opts_small(r, true) } else { gen_opts(r, true) };
    let cfg = LayoutCfg {
        resolutions: zoom_resolutions(&opts),
        allow_zero_len: g.allow_zero_len && r.chance(1, 3),
        exact_values: g.force_exact || r.chance(1, 3),
        max_items: *r.pick(&[6usize, 20, 60]),
    };
    let huge = g.huge_ok && r.chance(1, 4);
    let mut input = gen_bw_input(r, g.max_chroms, &cfg, huge);
    // every file keeps at least one positive-length value (the all-zero-length file is C13's case)
    if !input.iter().any(|(_, vs)| vs.iter().any(|v| v.end > v.start)) {
        let (c, vs) = &mut input[0];
        let v = &mut vs[0];
        if v.start < c.size {
            v.end = v.start + 1;
        } else {
            v.start = c.size - 1;
            v.end = c.size;
        }
        // keep sortedness/non-overlap: drop anything that now overlaps
        let end = vs[0].end;
        let first = vs[0];
        vs.retain(|x| x.start >= end || (x.start == first.start && x.end == first.end));
        vs.dedup_by(|a, b| a.start == b.start && a.end == b.end);
    }
    if g.allow_unsorted_chroms && input.len() > 1 && r.chance(1, 4) {
        opts.sort_all = false;
        r.shuffle(&mut input);
    }
    let used: Vec<&str> = input.iter().map(|(c, _)| c.name.as_str()).collect();
    let extra = extra_chroms(r, &used);
    let mut f = Fnv::new();
    bw_hash(&input, &mut f);
    opts.hash_into(&mut f);
    let mut tags = vec![];
    let mut nontrivial = input.len() >= 2;
    for (c, vs) in &input {
        if vs.len() > opts.items_per_slot as usize {
            nontrivial = true;
            tags.push("multi_section".to_string());
        }
        for v in vs {
            if v.start == v.end {
                tags.push("zero_length".into());
                nontrivial = true;
            }
            if v.start == 0 {
                tags.push("at_0".into());
            }
            if v.end == c.size {
                tags.push("at_chrom_end".into());
                nontrivial = true;
            }
        }
        if c.size > 1_000_000 {
            tags.push("huge_chrom".into());
        }
    }
    tags.sort();
    tags.dedup();
    BwCase { input, opts, extra, hash: f.hex(), nontrivial, tags }
}

fn bw_desc(c: &BwCase) -> J {
    J::obj().set("opts", c.opts.to_json()).set("input", bw_input_json(&c.input)).set(
        "extra_chroms",
        J::A(c.extra.iter().map(|(n, s)| J::A(vec![J::s(n.clone()), (*s).into()])).collect()),
    )
}

/// Multiset diff of two lists; returns (missing, extra, reordered)
pub fn diff_lists<T: Clone + PartialEq>(expected: &[T], got: &[T]) -> (Vec<T>, Vec<T>, bool) {
    if expected == got {
        return (vec![], vec![], false);
    }
    let mut rest: Vec<Option<&T>> = got.iter().map(Some).collect();
    let mut missing = vec![];
    for e in expected {
        if let Some(slot) = rest.iter_mut().find(|g| g.map(|g| g == e).unwrap_or(false)) {
            *slot = None;
        } else {
            missing.push(e.clone());
        }
    }
    let extra: Vec<T> = rest.into_iter().flatten().cloned().collect();
    let reordered = missing.is_empty() && extra.is_empty();
    (missing, extra, reordered)
}

fn bits_eq(a: &Value, b: &Value) -> bool {
    a.start == b.start && a.end == b.end && a.value.to_bits() == b.value.to_bits()
}

#[derive(Clone, PartialEq)]
struct VB(u32, u32, u32);

fn span_feature(start: u32, end: u32, size: u32) -> &'static str {
    if start == end {
        if start == 0 {
            "zero_length_at_0"
        } else if start == size {
            "zero_length_at_chrom_end"
        } else {
            "zero_length_interior"
        }
    } else if start == 0 {
        "positive_length_at_0"
    } else if end == size {
        "positive_length_at_chrom_end"
    } else {
        "positive_length_interior"
    }
}

pub fn check_chrom_table(out: &mut Outcome, got: &[(String, u32)], expected: &[(String, u32)]) {
    if got != expected {
        let site = if got.len() != expected.len() {
            "count"
        } else if got.iter().map(|g| &g.0).collect::<Vec<_>>() != expected.iter().map(|g| &g.0).collect::<Vec<_>>() {
            let mut a: Vec<_> = got.iter().map(|g| g.0.clone()).collect();
            let mut b: Vec<_> = expected.iter().map(|g| g.0.clone()).collect();
            a.sort();
            b.sort();
            if a == b {
                "order"
            } else {
                "names"
            }
        } else {
            "sizes"
        };
        out.viol(
            "chrom_table_mismatch",
            site,
            J::obj()
                .set("got", J::A(got.iter().map(|(n, s)| J::A(vec![J::s(n.clone()), (*s).into()])).collect()))
                .set("expected", J::A(expected.iter().map(|(n, s)| J::A(vec![J::s(n.clone()), (*s).into()])).collect())),
        );
    }
}


/// A file with more chromosomes than the default chromosome-tree block size (256).
pub fn many_chroms_bw(n: usize) -> BwInput {
    (0..n)
        .map(|i| {
            let vals: Vec<Value> = (0..(1 + i % 3) as u32).map(|k| Value { start: k * 7 + (i as u32 % 5), end: k * 7 + (i as u32 % 5) + 3, value: (i % 17) as f32 + 0.5 }).collect();
            (Chrom { name: format!("s{:03}", i), size: 1000 + i as u32 }, vals)
        })
        .collect()
}
pub fn many_chroms_bb(n: usize) -> BbInput {
    (0..n)
        .map(|i| {
            let ents: Vec<BedEntry> = (0..(1 + i % 3) as u32).map(|k| BedEntry { start: k * 5 + (i as u32 % 4), end: k * 5 + (i as u32 % 4) + 9, rest: format!("n{}\t{}", i, k) }).collect();
            (Chrom { name: format!("s{:03}", i), size: 1000 + i as u32 }, ents)
        })
        .collect()
}

pub fn c01(ctx: &Ctx, begin: &mut dyn FnMut(J)) -> Outcome {
    let mut r = Rng::derive(ctx.seed, 0xC01, ctx.case);
    let mut case = gen_bw_case(
        &mut r,
        &BwGenCfg { allow_zero_len: true, huge_ok: true, small_slots: false, allow_unsorted_chroms: true, max_chroms: 6, force_exact: false },
    );
    if ctx.case == 0 {
        // the u16 item-count boundary: one section of 65535 items and a following one
        let n = 70_000u32;
        let vals: Vec<Value> = (0..n).map(|i| Value { start: i * 2, end: i * 2 + 1, value: (i % 97) as f32 }).collect();
        case.input = vec![(Chrom { name: "chr1".into(), size: n * 2 + 10 }, vals)];
        case.opts.items_per_slot = 65535;
        case.opts.source = Source::Serial;
        case.opts.sort_all = true;
        case.extra.clear();
        case.tags = vec!["ips_65535".into(), "multi_section".into()];
        case.nontrivial = true;
        let mut f = Fnv::new();
        bw_hash(&case.input, &mut f);
        case.opts.hash_into(&mut f);
        case.hash = f.hex();
        begin(J::obj().set("opts", case.opts.to_json()).set("input", J::s("70000 values [2i,2i+1) = i%97 on chr1")));
    } else if ctx.case == 1 {
        // more chromosomes than the chromosome-tree default block size
        case.input = many_chroms_bw(300);
        case.opts.source = Source::Serial;
        case.opts.sort_all = true;
        case.extra.clear();
        case.tags = vec!["chroms_gt_256".into()];
        case.nontrivial = true;
        let mut f = Fnv::new();
        bw_hash(&case.input, &mut f);
        case.opts.hash_into(&mut f);
        case.hash = f.hex();
        begin(J::obj().set("opts", case.opts.to_json()).set("input", J::s("300 chromosomes s000..s299 with 1..3 values each")));
    } else if (2..=5).contains(&ctx.case) {
        // heavy chromosomes: each stages far more than any internal buffer (64 KiB, 256 KiB) before
        // it can get the output file; in-memory and temp-file staging, lock-step and threaded
        let mk = |name: &str, n: u32, seed: u32| -> (Chrom, Vec<Value>) {
            let vals: Vec<Value> = (0..n).map(|i| Value { start: i * 3, end: i * 3 + 2, value: ((i.wrapping_mul(2654435761).wrapping_add(seed)) % 1000) as f32 / 8.0 }).collect();
            (Chrom { name: name.into(), size: n * 3 + 5 }, vals)
        };
        case.input = vec![mk("chr1", 30_000, 1), mk("chr2", 45_000, 2), mk("chr3", 9_000, 3)];
        case.opts = WOpts::default_small();
        case.opts.items_per_slot = 1024;
        case.opts.block_size = 256;
        case.opts.compress = ctx.case % 2 == 0;
        case.opts.zoom = Zoom::Auto { initial: 160, max: 3 };
        case.opts.inmemory = ctx.case <= 3;
        case.opts.workers = if ctx.case % 2 == 0 { 0 } else { 4 };
        case.opts.channel_size = 100;
        case.opts.multipass = ctx.case == 5;
        case.extra.clear();
        case.tags = vec!["heavy_chromosomes".into(), "multi_section".into()];
        case.nontrivial = true;
        let mut f = Fnv::new();
        bw_hash(&case.input, &mut f);
        case.opts.hash_into(&mut f);
        case.hash = f.hex();
        begin(J::obj().set("opts", case.opts.to_json()).set("input", J::s("chr1 30000, chr2 45000, chr3 9000 values [3i,3i+2)")));
    } else {
        begin(bw_desc(&case));
    }
    let mut out = Outcome::new();
    out.hash = case.hash.clone();
    out.nontrivial = case.nontrivial;
    for t in &case.tags {
        out.tag(t.clone());
    }
    let sink = MemSink::new();
    let res = wr::write_bw(sink.clone(), &case.input, &case.opts, Some(&ctx.scratch), &case.extra);
    match &res {
        CallResult::Ok => {}
        CallResult::Err(e) if e.starts_with("HARNESS") => {
            out.inconclusive = Some(e.clone());
            return out;
        }
        CallResult::Err(e) if e.starts_with("INDEX_") || e.contains("File is not sorted") => {
            // the parallel path could not slice a sorted file: C18's business, not a round-trip failure
            out.inconclusive = Some(format!("blocked_by:C18 {}", e));
            out.tag("blocked_by_C18");
            return out;
        }
        CallResult::Err(e) => {
            out.viol("valid_input_refused", wr::truncate(e, 60), J::s(e.clone()));
            return out;
        }
        CallResult::Panic(p) => {
            out.viol("write_panicked", wr::panic_site(p), J::A(p.iter().cloned().map(J::S).collect()));
            return out;
        }
    }
    let bytes = sink.bytes();
    out.count("bytes", bytes.len() as u64);
    let read = wr::guard(|| -> Result<(), String> {
        let mut rd = BigWigRead::open(Cursor::new(bytes.clone())).map_err(|e| format!("open: {}", e))?;
        let got_chroms: Vec<(String, u32)> = rd.chroms().iter().map(|c| (c.name.clone(), c.length)).collect();
        let exp_chroms: Vec<(String, u32)> = case.input.iter().map(|(c, _)| (c.name.clone(), c.size)).collect();
        check_chrom_table(&mut out, &got_chroms, &exp_chroms);
        for (c, vs) in &case.input {
            let got: Vec<Value> = rd
                .get_interval(&c.name, 0, c.size)
                .map_err(|e| format!("get_interval({}): {}", c.name, e))?
                .collect::<Result<Vec<_>, _>>()
                .map_err(|e| format!("iter({}): {}", c.name, e))?;
            out.count("items_read", got.len() as u64);
            let same = got.len() == vs.len() && got.iter().zip(vs.iter()).all(|(a, b)| bits_eq(a, b));
            if !same {
                let e: Vec<VB> = vs.iter().map(|v| VB(v.start, v.end, v.value.to_bits())).collect();
                let g: Vec<VB> = got.iter().map(|v| VB(v.start, v.end, v.value.to_bits())).collect();
                let (missing, extra, reordered) = diff_lists(&e, &g);
                let detail = J::obj()
                    .set("chrom", J::s(c.name.clone()))
                    .set("size", c.size.into())
                    .set("missing", J::A(missing.iter().take(5).map(|v| J::A(vec![v.0.into(), v.1.into(), v.2.into()])).collect()))
                    .set("extra", J::A(extra.iter().take(5).map(|v| J::A(vec![v.0.into(), v.1.into(), v.2.into()])).collect()))
                    .set("n_expected", vs.len().into())
                    .set("n_got", got.len().into());
                if reordered {
                    out.viol("items_reordered", "", detail);
                } else {
                    if !missing.is_empty() {
                        for v in &missing {
                            out.viol("items_missing", span_feature(v.0, v.1, c.size), detail.clone());
                        }
                    }
                    if !extra.is_empty() {
                        out.viol("items_extra_or_altered", "", detail);
                    }
                }
            }
        }
        Ok(())
    });
    match read {
        Ok(Ok(())) => {}
        Ok(Err(e)) => out.viol("read_failed", wr::truncate(&e, 60), J::s(e)),
        Err(p) => out.viol("read_panicked", wr::panic_site(&p), J::A(p.into_iter().map(J::S).collect())),
    }
    out
}

pub struct BbCase {
    pub input: BbInput,
    pub opts: WOpts,
    pub extra: Vec<(String, u32)>,
    pub autosql: Option<String>,
    pub hash: String,
    pub nontrivial: bool,
    pub tags: Vec<String>,
}

pub struct BbGenCfg {
    pub allow_zero_len: bool,
    pub no_zero_zero: bool,
    pub small_slots: bool,
    pub max_chroms: usize,
    pub ncols: Option<usize>,
}

pub fn gen_bb_case(r: &mut Rng, g: &BbGenCfg) -> BbCase {
    let mut opts = if g.small_slots { gen_opts_small(r, true) } else { gen_opts(r, true) };
    let cfg = BedCfg {
        resolutions: zoom_resolutions(&opts),
        allow_zero_len: g.allow_zero_len && r.chance(1, 3),
        max_items: *r.pick(&[6usize, 20, 60]),
        ncols: g.ncols,
        no_zero_zero: g.no_zero_zero,
    };
    let mut input = gen_bb_input(r, g.max_chroms, &cfg);
    if !input.iter().any(|(_, vs)| vs.iter().any(|v| v.end > v.start)) {
        let (_, vs) = &mut input[0];
        vs[0].end = vs[0].start + 1;
    }
    if input.len() > 1 && r.chance(1, 4) {
        opts.sort_all = false;
        r.shuffle(&mut input);
    }
    let used: Vec<&str> = input.iter().map(|(c, _)| c.name.as_str()).collect();
    let extra = extra_chroms(r, &used);
    let autosql = match r.below(5) {
        0 => None,
        // a schema longer than any 8 KiB read buffer (long comments are normal in real .as files), with a
        // multi-byte character sitting across the 8192-byte mark
        4 => {
            let pad = 8192 - 30 + r.below(4) as usize;
            Some(format!(
                "table longSchema\n\"{}\u{3b1}\u{e9}\u{4e2d} {}\"\n(\n string chrom; \"c\"\n uint chromStart; \"s\"\n uint chromEnd; \"e\"\n lstring extra; \"x\"\n)\n",
                "d".repeat(pad),
                "tail ".repeat(1 + r.below(900) as usize)
            ))
        }
        1 => Some(bigtools::bed::autosql::bed_autosql(&input[0].1[0].rest)),
        2 => Some("table custom\n\"A custom \u{3b1} table\"\n(\n string chrom; \"c\"\n uint chromStart; \"s\"\n uint chromEnd; \"e\"\n lstring extra; \"x\"\n)\n".to_string()),
        _ => Some(format!("table t{}\n\"t\"\n(\nstring chrom; \"\"\nuint chromStart; \"\"\nuint chromEnd; \"\"\n)", r.below(1000))),
    };
    let mut f = Fnv::new();
    bb_hash(&input, &mut f);
    opts.hash_into(&mut f);
    f.str(autosql.as_deref().unwrap_or("-"));
    let mut tags = vec![];
    let mut nontrivial = input.len() >= 2;
    for (c, vs) in &input {
        if vs.len() > opts.items_per_slot as usize {
            nontrivial = true;
            tags.push("multi_section".to_string());
        }
        let mut max_end = 0;
        for (i, v) in vs.iter().enumerate() {
            if v.start == v.end {
                tags.push("zero_length".into());
                nontrivial = true;
            }
            if i > 0 {
                if v.start < max_end {
                    tags.push("overlap".into());
                    nontrivial = true;
                }
                if v.end < max_end {
                    tags.push("nested".into());
                }
                if *v == vs[i - 1] {
                    tags.push("duplicate".into());
                }
            }
            if v.end > c.size {
                tags.push("past_chrom_end".into());
            }
            max_end = max_end.max(v.end);
        }
    }
    tags.sort();
    tags.dedup();
    BbCase { input, opts, extra, autosql, hash: f.hex(), nontrivial, tags }
}

fn bb_desc(c: &BbCase) -> J {
    J::obj()
        .set("opts", c.opts.to_json())
        .set("autosql", c.autosql.clone().map(J::S).unwrap_or(J::Null))
        .set("input", bb_input_json(&c.input))
        .set("extra_chroms", J::A(c.extra.iter().map(|(n, s)| J::A(vec![J::s(n.clone()), (*s).into()])).collect()))
}

pub fn c02(ctx: &Ctx, begin: &mut dyn FnMut(J)) -> Outcome {
    let mut r = Rng::derive(ctx.seed, 0xC02, ctx.case);
    let mut case = gen_bb_case(&mut r, &BbGenCfg { allow_zero_len: true, no_zero_zero: false, small_slots: false, max_chroms: 6, ncols: None });
    if ctx.case == 2 || ctx.case == 3 {
        // very long and multi-byte rest fields (longer than any 8 KiB / 64 KiB buffer), with
        // items_per_slot equal to the number of entries of a chromosome
        let long_ascii: String = std::iter::repeat("abcdefghij").take(7_000).collect();
        let long_mb: String = std::iter::repeat("\u{3b1}\u{e9}z").take(22_000).collect();
        let mk = |name: &str, rests: Vec<String>| -> (Chrom, Vec<BedEntry>) {
            (Chrom { name: name.into(), size: 5000 }, rests.into_iter().enumerate().map(|(i, r)| BedEntry { start: 10 * i as u32, end: 10 * i as u32 + 25, rest: r }).collect())
        };
        case.input = vec![
            mk("chr1", vec!["a".into(), long_ascii.clone(), "b\tc".into(), long_mb.clone()]),
            mk("chr2", vec![long_mb.clone(), "".into(), format!("x\t{}", long_ascii), "y".into()]),
        ];
        case.opts.items_per_slot = if ctx.case == 2 { 4 } else { 3 };
        case.opts.multipass = ctx.case == 3;
        case.opts.source = Source::Serial;
        case.opts.sort_all = true;
        case.extra.clear();
        case.tags = vec!["very_long_rest".into()];
        case.nontrivial = true;
        begin(J::obj().set("opts", case.opts.to_json()).set("input", J::s("2 chromosomes x 4 entries, rest fields of 70 000 ASCII bytes and 110 000 bytes of multi-byte text")));
    } else if ctx.case == 1 {
        case.input = many_chroms_bb(300);
        case.opts.source = Source::Serial;
        case.opts.sort_all = true;
        case.extra.clear();
        case.tags = vec!["chroms_gt_256".into()];
        case.nontrivial = true;
        begin(J::obj().set("opts", case.opts.to_json()).set("input", J::s("300 chromosomes s000..s299 with 1..3 entries each")));
    } else {
        begin(bb_desc(&case));
    }
    let mut out = Outcome::new();
    out.hash = case.hash.clone();
    out.nontrivial = case.nontrivial;
    for t in &case.tags {
        out.tag(t.clone());
    }
    let sink = MemSink::new();
    let res = wr::write_bb(sink.clone(), &case.input, &case.opts, case.autosql.clone(), Some(&ctx.scratch), &case.extra);
    match &res {
        CallResult::Ok => {}
        CallResult::Err(e) if e.starts_with("HARNESS") => {
            out.inconclusive = Some(e.clone());
            return out;
        }
        CallResult::Err(e) if e.starts_with("INDEX_") || e.contains("File is not sorted") => {
            out.inconclusive = Some(format!("blocked_by:C18 {}", e));
            out.tag("blocked_by_C18");
            return out;
        }
        CallResult::Err(e) => {
            out.viol("valid_input_refused", wr::truncate(e, 60), J::s(e.clone()));
            return out;
        }
        CallResult::Panic(p) => {
            out.viol("write_panicked", wr::panic_site(p), J::A(p.iter().cloned().map(J::S).collect()));
            return out;
        }
    }
    let bytes = sink.bytes();
    out.count("bytes", bytes.len() as u64);
    let total: usize = case.input.iter().map(|(_, v)| v.len()).sum();
    let read = wr::guard(|| -> Result<(), String> {
        let mut rd = BigBedRead::open(Cursor::new(bytes.clone())).map_err(|e| format!("open: {}", e))?;
        let got_chroms: Vec<(String, u32)> = rd.chroms().iter().map(|c| (c.name.clone(), c.length)).collect();
        let exp_chroms: Vec<(String, u32)> = case.input.iter().map(|(c, _)| (c.name.clone(), c.size)).collect();
        check_chrom_table(&mut out, &got_chroms, &exp_chroms);
        let ic = rd.item_count().map_err(|e| format!("item_count: {}", e))?;
        if ic != total as u64 {
            out.viol("item_count_mismatch", "", J::obj().set("got", ic.into()).set("expected", total.into()));
        }
        if let Some(a) = &case.autosql {
            let got = rd.autosql().map_err(|e| format!("autosql: {}", e))?;
            if got.as_deref() != Some(a.as_str()) {
                out.viol("autosql_not_verbatim", "", J::obj().set("got", got.map(J::S).unwrap_or(J::Null)).set("expected", J::s(a.clone())));
            }
        }
        for (c, vs) in &case.input {
            // entries may extend past the chromosome end; the "full span" is at least the chromosome
            let hi = vs.iter().map(|v| v.end).max().unwrap_or(0).max(c.size);
            let it = rd.get_interval(&c.name, 0, hi).map_err(|e| format!("get_interval({}): {}", c.name, e))?;
            let got: Vec<BedEntry> = match it.collect::<Result<Vec<_>, _>>() {
                Ok(g) => g,
                Err(e) => {
                    let has00 = vs.iter().any(|v| v.start == 0 && v.end == 0);
                    let msg = e.to_string();
                    out.viol(
                        "read_error",
                        if has00 && msg.contains("both equal 0") { "entry_0_0".to_string() } else { wr::truncate(&msg, 60) },
                        J::obj().set("chrom", J::s(c.name.clone())).set("error", J::s(msg)),
                    );
                    continue;
                }
            };
            out.count("items_read", got.len() as u64);
            if &got != vs {
                let (missing, extra, reordered) = diff_lists(vs, &got);
                let detail = J::obj()
                    .set("chrom", J::s(c.name.clone()))
                    .set("size", c.size.into())
                    .set("missing", J::A(missing.iter().take(5).map(|v| J::A(vec![v.start.into(), v.end.into(), J::s(v.rest.clone())])).collect()))
                    .set("extra", J::A(extra.iter().take(5).map(|v| J::A(vec![v.start.into(), v.end.into(), J::s(v.rest.clone())])).collect()))
                    .set("n_expected", vs.len().into())
                    .set("n_got", got.len().into());
                if reordered {
                    out.viol("items_reordered", "", detail);
                } else {
                    if !missing.is_empty() {
                        for v in &missing {
                            out.viol("items_missing", span_feature(v.start, v.end, c.size), detail.clone());
                        }
                    }
                    if !extra.is_empty() {
                        out.viol("items_extra_or_altered", "", detail);
                    }
                }
            }
        }
        Ok(())
    });
    match read {
        Ok(Ok(())) => {}
        Ok(Err(e)) => out.viol("read_failed", wr::truncate(&e, 60), J::s(e)),
        Err(p) => out.viol("read_panicked", wr::panic_site(&p), J::A(p.into_iter().map(J::S).collect())),
    }
    let _ = (model::overlaps, Tier::Quick);
    out
}

/// C06: whole-file summary statistics and item count.
pub fn c06(ctx: &Ctx, begin: &mut dyn FnMut(J)) -> Outcome {
    let mut r = Rng::derive(ctx.seed, 0xC06, ctx.case);
    let mut out = Outcome::new();
    let check = |out: &mut Outcome, kind: &str, got: &bigtools::Summary, m: &model::Stats, want_items: u64, exact: bool| {
        let d = || {
            J::obj()
                .set("kind", kind.into())
                .set("got", J::A(vec![got.total_items.into(), got.bases_covered.into(), J::F(got.min_val), J::F(got.max_val), J::F(got.sum), J::F(got.sum_squares)]))
                .set("model", J::A(vec![want_items.into(), m.bases.into(), J::F(m.min), J::F(m.max), J::F(m.sum), J::F(m.sumsq)]))
        };
        if got.total_items != want_items {
            out.viol("item_count_wrong", kind, d());
        }
        if got.bases_covered != m.bases {
            out.viol("bases_covered_wrong", format!("{}:{}", kind, if got.bases_covered < m.bases { "fewer" } else { "more" }), d());
        }
        if m.bases > 0 {
            if got.min_val != m.min {
                out.viol("min_wrong", kind, d());
            }
            if got.max_val != m.max {
                out.viol("max_wrong", kind, d());
            }
        }
        let close = |a: f64, b: f64, abs: f64| if exact { a == b } else { model::f64_close(a, b, abs, m.terms + 4) };
        if got.bases_covered == m.bases {
            if !close(got.sum, m.sum, m.abs_sum) {
                out.viol("sum_wrong", kind, d());
            }
            if !close(got.sum_squares, m.sumsq, m.abs_sumsq) {
                out.viol("sum_squares_wrong", kind, d());
            }
        }
    };
    if ctx.case % 2 == 0 {
        let (small, exact_vals) = (r.chance(1, 2), r.chance(1, 2));
        let case = gen_bw_case(
            &mut r,
            &BwGenCfg { allow_zero_len: true, huge_ok: true, small_slots: small, allow_unsorted_chroms: true, max_chroms: 6, force_exact: exact_vals },
        );
        begin(bw_desc(&case));
        out.hash = case.hash.clone();
        out.nontrivial = case.nontrivial;
        out.tag("bigwig");
        let sink = MemSink::new();
        let res = wr::write_bw(sink.clone(), &case.input, &case.opts, Some(&ctx.scratch), &case.extra);
        match &res {
            CallResult::Ok => {}
            CallResult::Err(e) if e.starts_with("INDEX_") || e.contains("File is not sorted") => {
                out.inconclusive = Some(format!("blocked_by:C18 {}", e));
                return out;
            }
            other => {
                out.inconclusive = Some(format!("blocked_by:C01 write failed: {}", other.short()));
                return out;
            }
        }
        let bytes = sink.bytes();
        let mut m = model::Stats::empty();
        let mut sections = 0u64;
        let mut exact = true;
        for (c, vs) in &case.input {
            m.merge(&model::bw_stats(vs, 0, c.size));
            sections += ((vs.len() as u64) + case.opts.items_per_slot as u64 - 1) / case.opts.items_per_slot as u64;
            exact &= vs.iter().all(|v| EXACT_VALUES.contains(&v.value)) && c.size < 1_000_000;
        }
        // zero-length values may or may not take part in min/max (declared don't-care): compare
        // min/max only when no zero-length value could change them
        let zl_extreme = case.input.iter().flat_map(|(_, vs)| vs.iter()).filter(|v| v.start == v.end).any(|v| (v.value as f64) < m.min || (v.value as f64) > m.max);
        let rd = wr::guard(|| -> Result<bigtools::Summary, String> {
            let mut rd = BigWigRead::open(Cursor::new(bytes.clone())).map_err(|e| e.to_string())?;
            rd.get_summary().map_err(|e| e.to_string())
        });
        match rd {
            Ok(Ok(s)) => {
                let mut mm = m;
                if zl_extreme {
                    mm.min = s.min_val;
                    mm.max = s.max_val;
                    out.tag("zero_length_extreme_dont_care");
                }
                check(&mut out, "bigwig", &s, &mm, sections, exact);
                if exact {
                    out.tag("exact_arithmetic");
                }
            }
            Ok(Err(e)) => out.viol("summary_read_failed", "bigwig", J::s(e)),
            Err(p) => out.viol("summary_read_panicked", wr::panic_site(&p), J::A(p.into_iter().map(J::S).collect())),
        }
    } else {
        let small = r.chance(1, 2);
        let case = gen_bb_case(&mut r, &BbGenCfg { allow_zero_len: ctx.arg != "nozl", no_zero_zero: true, small_slots: small, max_chroms: 6, ncols: Some(0) });
        begin(bb_desc(&case));
        out.hash = case.hash.clone();
        out.nontrivial = case.nontrivial;
        out.tag("bigbed");
        for t in &case.tags {
            out.tag(t.clone());
        }
        let sink = MemSink::new();
        let res = wr::write_bb(sink.clone(), &case.input, &case.opts, None, Some(&ctx.scratch), &case.extra);
        match &res {
            CallResult::Ok => {}
            CallResult::Err(e) if e.starts_with("INDEX_") || e.contains("File is not sorted") => {
                out.inconclusive = Some(format!("blocked_by:C18 {}", e));
                return out;
            }
            other => {
                out.inconclusive = Some(format!("blocked_by:C02 write failed: {}", other.short()));
                return out;
            }
        }
        let bytes = sink.bytes();
        let mut m = model::Stats::empty();
        let mut items = 0u64;
        for (c, vs) in &case.input {
            let d = model::depth_array(vs, c.size);
            m.merge(&model::depth_stats(&d, 0, d.len() as u32));
            items += vs.len() as u64;
        }
        let rd = wr::guard(|| -> Result<(bigtools::Summary, u64), String> {
            let mut rd = BigBedRead::open(Cursor::new(bytes.clone())).map_err(|e| e.to_string())?;
            let s = rd.get_summary().map_err(|e| e.to_string())?;
            let ic = rd.item_count().map_err(|e| e.to_string())?;
            Ok((s, ic))
        });
        match rd {
            Ok(Ok((s, ic))) => {
                // depths are small integers: all arithmetic is exact.
                // Declared don't-care (as for bigWig): a zero-length entry may take part in
                // min/max as a depth-1 segment that covers no base.
                let has_zl = case.input.iter().any(|(_, vs)| vs.iter().any(|v| v.start == v.end));
                let mut m = m;
                if has_zl && m.bases > 0 {
                    // bounded don't-care: a zero-length entry may contribute a depth >= 1 that covers
                    // no base, so min may drop (never below 1) and max may rise (by at most the number
                    // of zero-length entries); anything else is still a violation
                    let nzl = case.input.iter().flat_map(|(_, vs)| vs.iter()).filter(|v| v.start == v.end).count() as f64;
                    if s.min_val >= 1.0 && s.min_val <= m.min {
                        m.min = s.min_val;
                    }
                    if s.max_val >= m.max && s.max_val <= m.max + nzl {
                        m.max = s.max_val;
                    }
                    out.tag("zero_length_entries_minmax_bounded_dont_care");
                }
                check(&mut out, "bigbed", &s, &m, items, true);
                if ic != items {
                    out.viol("item_count_wrong", "bigbed:item_count()", J::obj().set("got", ic.into()).set("want", items.into()));
                }
            }
            Ok(Err(e)) => out.viol("summary_read_failed", "bigbed", J::s(e)),
            Err(p) => out.viol("summary_read_panicked", wr::panic_site(&p), J::A(p.into_iter().map(J::S).collect())),
        }
    }
    out
}

/// C09 emitter: writes one file per case plus a JSON sidecar describing exactly what went in.
/// The oracle (independent decoder) is pybbi/decode.py, driven by lib/c09.py.
pub fn c09emit(ctx: &Ctx, begin: &mut dyn FnMut(J)) -> Outcome {
    let mut r = Rng::derive(ctx.seed, 0xC09, ctx.case);
    let mut out = Outcome::new();
    let base = ctx.scratch.join(format!("c09_{}_{}", ctx.seed, ctx.case));
    if ctx.case % 2 == 0 {
        let small = r.chance(1, 2);
        let mut case = gen_bw_case(&mut r, &BwGenCfg { allow_zero_len: true, huge_ok: true, small_slots: small, allow_unsorted_chroms: true, max_chroms: 6, force_exact: false });
        if ctx.case == 2 {
            case.input = many_chroms_bw(300);
            case.opts.source = Source::Serial;
            case.opts.sort_all = true;
            case.extra.clear();
            out.tag("chroms_gt_256");
        }
        begin(if ctx.case == 2 { J::obj().set("opts", case.opts.to_json()).set("input", J::s("300 chromosomes")) } else { bw_desc(&case) });
        out.hash = case.hash.clone();
        out.nontrivial = case.nontrivial;
        let sink = MemSink::new();
        let res = wr::write_bw(sink.clone(), &case.input, &case.opts, Some(&ctx.scratch), &case.extra);
        match &res {
            CallResult::Ok => {}
            CallResult::Err(e) if e.starts_with("INDEX_") || e.contains("File is not sorted") => {
                out.inconclusive = Some(format!("blocked_by:C18 {}", e));
                return out;
            }
            other => {
                out.inconclusive = Some(format!("blocked_by:C01 write failed: {}", other.short()));
                return out;
            }
        }
        let path = base.with_extension("bw");
        if let Err(e) = std::fs::write(&path, sink.bytes()) {
            out.inconclusive = Some(format!("HARNESS {}", e));
            return out;
        }
        let side = J::obj()
            .set("kind", "bigwig".into())
            .set("file", J::s(path.to_string_lossy().to_string()))
            .set("case", ctx.case.into())
            .set("opts", case.opts.to_json())
            .set("chroms", bw_input_json(&case.input))
            .set("extra_chroms", J::A(case.extra.iter().map(|(n, s)| J::A(vec![J::s(n.clone()), (*s).into()])).collect()));
        let _ = std::fs::write(base.with_extension("json"), side.to_string());
    } else {
        let small = r.chance(1, 2);
        let mut case = gen_bb_case(&mut r, &BbGenCfg { allow_zero_len: true, no_zero_zero: true, small_slots: small, max_chroms: 6, ncols: None });
        if ctx.case == 3 {
            case.input = many_chroms_bb(300);
            case.opts.source = Source::Serial;
            case.opts.sort_all = true;
            case.extra.clear();
            out.tag("chroms_gt_256");
        }
        begin(if ctx.case == 3 { J::obj().set("opts", case.opts.to_json()).set("input", J::s("300 chromosomes")) } else { bb_desc(&case) });
        out.hash = case.hash.clone();
        out.nontrivial = case.nontrivial;
        let sink = MemSink::new();
        let res = wr::write_bb(sink.clone(), &case.input, &case.opts, case.autosql.clone(), Some(&ctx.scratch), &case.extra);
        match &res {
            CallResult::Ok => {}
            CallResult::Err(e) if e.starts_with("INDEX_") || e.contains("File is not sorted") => {
                out.inconclusive = Some(format!("blocked_by:C18 {}", e));
                return out;
            }
            other => {
                out.inconclusive = Some(format!("blocked_by:C02 write failed: {}", other.short()));
                return out;
            }
        }
        let path = base.with_extension("bb");
        if let Err(e) = std::fs::write(&path, sink.bytes()) {
            out.inconclusive = Some(format!("HARNESS {}", e));
            return out;
        }
        let side = J::obj()
            .set("kind", "bigbed".into())
            .set("file", J::s(path.to_string_lossy().to_string()))
            .set("case", ctx.case.into())
            .set("opts", case.opts.to_json())
            .set("autosql", case.autosql.clone().map(J::S).unwrap_or(J::Null))
            .set("chroms", bb_input_json(&case.input))
            .set("extra_chroms", J::A(case.extra.iter().map(|(n, s)| J::A(vec![J::s(n.clone()), (*s).into()])).collect()));
        let _ = std::fs::write(base.with_extension("json"), side.to_string());
    }
    out
}
