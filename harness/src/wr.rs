//! Thin wrappers that drive the *public* writer / reader API.
use crate::gen::{BbInput, BwInput, Source, WOpts, Zoom};
use bigtools::beddata::{BedParserParallelStreamingIterator, BedParserStreamingIterator};
use bigtools::bed::bedparser::{parse_bed, parse_bedgraph};
use bigtools::bed::indexer::index_chroms;
use bigtools::{BBIWriteOptions, BedEntry, BigBedWrite, BigWigWrite, InputSortType, Value};
use std::collections::HashMap;
use std::io::{Seek, Write};
use std::panic::{catch_unwind, AssertUnwindSafe};
use std::path::{Path, PathBuf};
use std::sync::Mutex;
use tokio::runtime::Runtime;

pub static PANIC_LOCS: Mutex<Vec<String>> = Mutex::new(Vec::new());

pub fn install_panic_hook() {
    std::panic::set_hook(Box::new(|info| {
        let loc = info.location().map(|l| format!("{}:{}", l.file(), l.line())).unwrap_or_else(|| "?".into());
        let msg = if let Some(s) = info.payload().downcast_ref::<&str>() {
            s.to_string()
        } else if let Some(s) = info.payload().downcast_ref::<String>() {
            s.clone()
        } else {
            "?".to_string()
        };
        let mut g = PANIC_LOCS.lock().unwrap_or_else(|e| e.into_inner());
        if g.len() < 16 {
            g.push(format!("{} @ {}", truncate(&msg, 160), loc));
        }
    }));
}

pub fn truncate(s: &str, n: usize) -> String {
    if s.len() <= n {
        s.to_string()
    } else {
        let mut e = n;
        while !s.is_char_boundary(e) {
            e -= 1;
        }
        format!("{}…", &s[..e])
    }
}

pub fn take_panics() -> Vec<String> {
    std::mem::take(&mut *PANIC_LOCS.lock().unwrap_or_else(|e| e.into_inner()))
}

/// First panic location that lies inside bigtools' sources ("/repo/..." path), with line numbers kept.
pub fn panic_site(panics: &[String]) -> String {
    for p in panics {
        if let Some(i) = p.rfind(" @ ") {
            let loc = &p[i + 3..];
            if loc.contains("bigtools/src") || loc.contains("/repo/") {
                return loc.rsplit("bigtools/src/").next().unwrap_or(loc).to_string();
            }
        }
    }
    panics.first().map(|p| p.rsplit(" @ ").next().unwrap_or("?").to_string()).unwrap_or_else(|| "?".into())
}

#[derive(Debug, Clone)]
pub enum CallResult {
    Ok,
    Err(String),
    Panic(Vec<String>),
}
impl CallResult {
    pub fn is_ok(&self) -> bool {
        matches!(self, CallResult::Ok)
    }
    pub fn short(&self) -> String {
        match self {
            CallResult::Ok => "ok".into(),
            CallResult::Err(e) => format!("err:{}", truncate(e, 100)),
            CallResult::Panic(p) => format!("panic:{}", p.first().cloned().unwrap_or_default()),
        }
    }
}

/// Run a closure that calls into bigtools; panics become values.
pub fn guard<T>(f: impl FnOnce() -> T) -> Result<T, Vec<String>> {
    let _ = take_panics();
    match catch_unwind(AssertUnwindSafe(f)) {
        Ok(v) => Ok(v),
        Err(_) => Err(take_panics()),
    }
}

pub fn make_runtime(workers: usize) -> Runtime {
    if workers == 0 {
        tokio::runtime::Builder::new_current_thread().build().unwrap()
    } else {
        tokio::runtime::Builder::new_multi_thread().worker_threads(workers).build().unwrap()
    }
}

pub fn bbi_options(o: &WOpts) -> BBIWriteOptions {
    let mut b = BBIWriteOptions::default();
    b.compress = o.compress;
    b.items_per_slot = o.items_per_slot;
    b.block_size = o.block_size;
    match &o.zoom {
        Zoom::Auto { initial, max } => {
            b.initial_zoom_size = *initial;
            b.max_zooms = *max;
            b.manual_zoom_sizes = None;
        }
        Zoom::Manual(v) => b.manual_zoom_sizes = Some(v.clone()),
        Zoom::ManualWithMax(v, m) => {
            b.manual_zoom_sizes = Some(v.clone());
            b.max_zooms = *m;
        }
    }
    b.inmemory = o.inmemory;
    b.channel_size = o.channel_size;
    b.input_sort_type = if o.sort_all { InputSortType::ALL } else { InputSortType::START };
    b
}

pub fn chrom_map_bw(inp: &BwInput, extra: &[(String, u32)]) -> HashMap<String, u32> {
    let mut m: HashMap<String, u32> = inp.iter().map(|(c, _)| (c.name.clone(), c.size)).collect();
    for (n, s) in extra {
        m.entry(n.clone()).or_insert(*s);
    }
    m
}
pub fn chrom_map_bb(inp: &BbInput, extra: &[(String, u32)]) -> HashMap<String, u32> {
    let mut m: HashMap<String, u32> = inp.iter().map(|(c, _)| (c.name.clone(), c.size)).collect();
    for (n, s) in extra {
        m.entry(n.clone()).or_insert(*s);
    }
    m
}

pub fn flat_bw(inp: &BwInput) -> Vec<(String, Value)> {
    inp.iter().flat_map(|(c, vs)| vs.iter().map(move |v| (c.name.clone(), *v))).collect()
}
pub fn flat_bb(inp: &BbInput) -> Vec<(String, BedEntry)> {
    inp.iter().flat_map(|(c, vs)| vs.iter().map(move |v| (c.name.clone(), v.clone()))).collect()
}

static SCRATCH_SEQ: std::sync::atomic::AtomicU64 = std::sync::atomic::AtomicU64::new(0);

pub fn scratch_file(scratch: &Path, ext: &str) -> PathBuf {
    let n = SCRATCH_SEQ.fetch_add(1, std::sync::atomic::Ordering::Relaxed);
    scratch.join(format!("s{}_{}.{}", std::process::id(), n, ext))
}

/// Write a bigWig through the public API. `scratch` is needed for text sources.
pub fn write_bw<W: Write + Seek + Send + 'static>(
    sink: W,
    inp: &BwInput,
    o: &WOpts,
    scratch: Option<&Path>,
    extra_chroms: &[(String, u32)],
) -> CallResult {
    write_bw_flat(sink, flat_bw(inp), chrom_map_bw(inp, extra_chroms), o, scratch)
}

pub fn write_bw_flat<W: Write + Seek + Send + 'static>(
    sink: W,
    flat: Vec<(String, Value)>,
    chrom_map: HashMap<String, u32>,
    o: &WOpts,
    scratch: Option<&Path>,
) -> CallResult {
    let opts = bbi_options(o);
    let allow_ooo = !o.sort_all;
    let res = guard(|| -> Result<(), String> {
        let runtime = make_runtime(o.workers);
        let mut w = BigWigWrite::new(sink, chrom_map);
        w.options = opts;
        match o.source {
            Source::Serial => {
                if o.multipass {
                    w.write_multipass(
                        || Ok(BedParserStreamingIterator::wrap_infallible_iter(flat.clone().into_iter(), allow_ooo)),
                        runtime,
                    )
                    .map_err(|e| e.to_string())
                } else {
                    w.write(BedParserStreamingIterator::wrap_infallible_iter(flat.into_iter(), allow_ooo), runtime)
                        .map_err(|e| e.to_string())
                }
            }
            Source::SerialText | Source::Parallel => {
                let dir = scratch.expect("scratch dir needed for text sources");
                let path = scratch_file(dir, "bedGraph");
                let mut text = String::new();
                for (c, v) in &flat {
                    text.push_str(&format!("{}\t{}\t{}\t{:?}\n", c, v.start, v.end, v.value));
                }
                std::fs::write(&path, text).map_err(|e| format!("HARNESS: {}", e))?;
                let r = (|| {
                    if o.source == Source::SerialText {
                        if o.multipass {
                            w.write_multipass(
                                || {
                                    let f = std::fs::File::open(&path)?;
                                    Ok(BedParserStreamingIterator::from_bedgraph_file(f, allow_ooo))
                                },
                                runtime,
                            )
                            .map_err(|e| e.to_string())
                        } else {
                            let f = std::fs::File::open(&path).map_err(|e| format!("HARNESS: {}", e))?;
                            w.write(BedParserStreamingIterator::from_bedgraph_file(f, allow_ooo), runtime)
                                .map_err(|e| e.to_string())
                        }
                    } else {
                        let f = std::fs::File::open(&path).map_err(|e| format!("HARNESS: {}", e))?;
                        let idx = match index_chroms(f) {
                            Ok(Some(i)) => i,
                            Ok(None) => return Err("INDEX_NONE".to_string()),
                            Err(e) => return Err(format!("INDEX_ERR: {}", e)),
                        };
                        if o.multipass {
                            w.write_multipass(
                                || Ok(BedParserParallelStreamingIterator::new(idx.clone(), allow_ooo, path.clone(), parse_bedgraph)),
                                runtime,
                            )
                            .map_err(|e| e.to_string())
                        } else {
                            w.write(BedParserParallelStreamingIterator::new(idx, allow_ooo, path.clone(), parse_bedgraph), runtime)
                                .map_err(|e| e.to_string())
                        }
                    }
                })();
                let _ = std::fs::remove_file(&path);
                r
            }
        }
    });
    match res {
        Ok(Ok(())) => CallResult::Ok,
        Ok(Err(e)) => CallResult::Err(e),
        Err(p) => CallResult::Panic(p),
    }
}

pub fn write_bb<W: Write + Seek + Send + 'static>(
    sink: W,
    inp: &BbInput,
    o: &WOpts,
    autosql: Option<String>,
    scratch: Option<&Path>,
    extra_chroms: &[(String, u32)],
) -> CallResult {
    write_bb_flat(sink, flat_bb(inp), chrom_map_bb(inp, extra_chroms), o, autosql, scratch)
}

pub fn write_bb_flat<W: Write + Seek + Send + 'static>(
    sink: W,
    flat: Vec<(String, BedEntry)>,
    chrom_map: HashMap<String, u32>,
    o: &WOpts,
    autosql: Option<String>,
    scratch: Option<&Path>,
) -> CallResult {
    let opts = bbi_options(o);
    let allow_ooo = !o.sort_all;
    let res = guard(|| -> Result<(), String> {
        let runtime = make_runtime(o.workers);
        let mut w = BigBedWrite::new(sink, chrom_map);
        w.options = opts;
        w.autosql = autosql;
        match o.source {
            Source::Serial => {
                if o.multipass {
                    w.write_multipass(
                        || Ok(BedParserStreamingIterator::wrap_infallible_iter(flat.clone().into_iter(), allow_ooo)),
                        runtime,
                    )
                    .map_err(|e| e.to_string())
                } else {
                    w.write(BedParserStreamingIterator::wrap_infallible_iter(flat.into_iter(), allow_ooo), runtime)
                        .map_err(|e| e.to_string())
                }
            }
            Source::SerialText | Source::Parallel => {
                let dir = scratch.expect("scratch dir needed for text sources");
                let path = scratch_file(dir, "bed");
                let mut text = String::new();
                for (c, v) in &flat {
                    if v.rest.is_empty() {
                        text.push_str(&format!("{}\t{}\t{}\n", c, v.start, v.end));
                    } else {
                        text.push_str(&format!("{}\t{}\t{}\t{}\n", c, v.start, v.end, v.rest));
                    }
                }
                std::fs::write(&path, text).map_err(|e| format!("HARNESS: {}", e))?;
                let r = (|| {
                    if o.source == Source::SerialText {
                        if o.multipass {
                            w.write_multipass(
                                || {
                                    let f = std::fs::File::open(&path)?;
                                    Ok(BedParserStreamingIterator::from_bed_file(f, allow_ooo))
                                },
                                runtime,
                            )
                            .map_err(|e| e.to_string())
                        } else {
                            let f = std::fs::File::open(&path).map_err(|e| format!("HARNESS: {}", e))?;
                            w.write(BedParserStreamingIterator::from_bed_file(f, allow_ooo), runtime).map_err(|e| e.to_string())
                        }
                    } else {
                        let f = std::fs::File::open(&path).map_err(|e| format!("HARNESS: {}", e))?;
                        let idx = match index_chroms(f) {
                            Ok(Some(i)) => i,
                            Ok(None) => return Err("INDEX_NONE".to_string()),
                            Err(e) => return Err(format!("INDEX_ERR: {}", e)),
                        };
                        if o.multipass {
                            w.write_multipass(
                                || Ok(BedParserParallelStreamingIterator::new(idx.clone(), allow_ooo, path.clone(), parse_bed)),
                                runtime,
                            )
                            .map_err(|e| e.to_string())
                        } else {
                            w.write(BedParserParallelStreamingIterator::new(idx, allow_ooo, path.clone(), parse_bed), runtime)
                                .map_err(|e| e.to_string())
                        }
                    }
                })();
                let _ = std::fs::remove_file(&path);
                r
            }
        }
    });
    match res {
        Ok(Ok(())) => CallResult::Ok,
        Ok(Err(e)) => CallResult::Err(e),
        Err(p) => CallResult::Panic(p),
    }
}
