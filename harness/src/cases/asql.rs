//! C19: the stored autoSql matches the data; the schema parser is total.
use crate::gen::*;
use crate::proto::{Ctx, Outcome};
use crate::sink::MemSink;
use crate::util::{Fnv, Rng, J};
use crate::wr::{self, CallResult};
use bigtools::bed::autosql::{bed_autosql, parse::parse_autosql, BED3};
use bigtools::{BedEntry, BigBedRead};
use std::io::Cursor;

fn parse_guarded(text: &str) -> Result<Result<usize, String>, Vec<String>> {
    wr::guard(|| match parse_autosql(text) {
        Ok(d) => Ok(d.last().map(|x| x.fields.len()).unwrap_or(0)),
        Err(e) => Err(format!("{:?}", e)),
    })
}

/// c19g: case n = number of extra columns 0..=40
pub fn c19g(ctx: &Ctx, begin: &mut dyn FnMut(J)) -> Outcome {
    let n = ctx.case as usize;
    let mut r = Rng::derive(ctx.seed, 0xC19, ctx.case);
    let mut out = Outcome::new();
    let rest = gen_rest(&mut r, n);
    begin(J::obj().set("extra_columns", n.into()).set("rest", J::s(rest.clone())));
    out.hash = format!("cols{}", n);
    out.nontrivial = true;
    let schema = bed_autosql(&rest);
    match parse_guarded(&schema) {
        Ok(Ok(k)) => {
            if k != 3 + n {
                out.viol("generated_schema_field_count_wrong", if n > 12 { "beyond_bed12" } else { "within_bed12" }, J::obj().set("fields", k.into()).set("expected", (3 + n).into()).set("schema", J::s(schema.clone())));
            }
        }
        Ok(Err(e)) => out.viol("generated_schema_does_not_parse", if n > 12 { "beyond_bed12" } else { "within_bed12" }, J::obj().set("error", J::s(e)).set("schema", J::s(schema.clone()))),
        Err(p) => out.viol("parser_panicked", wr::panic_site(&p), J::s(schema.clone())),
    }
    // through the library writer: generated, custom, default
    let custom = format!(
        "table custom{}\n\"custom \u{3b1}\"\n(\n string chrom; \"c\"\n uint chromStart; \"s\"\n uint chromEnd; \"e\"\n{})\n",
        n,
        (0..n).map(|i| format!(" lstring f{}; \"x\"\n", i)).collect::<String>()
    );
    // a supplied schema in the usual .as layout with a helper type declared before the table that
    // describes the rows: the declared field count is the table's
    let helper_then_table = format!(
        "simple pt\n\"A helper type\"\n(\n int x; \"x\"\n int y; \"y\"\n)\n\n{}",
        custom
    );
    // the same schema with other token separators (DOS line endings; tabs, vertical tab and form feed):
    // white space between tokens does not change what is declared
    let custom_crlf = custom.replace('\n', "\r\n");
    let custom_ws = custom.replace("\n ", "\n\t").replace("; ", ";\t").replace(")\n", ")\u{b}\u{c}\n");
    // field names as real schemas have them: snake_case, a leading underscore, digits (field names are not restricted
    // the way declaration names are)
    let custom_names = format!(
        "table hg38custom{}\n\"names\"\n(\n string chrom; \"c\"\n uint chrom_start; \"s\"\n uint chrom_end; \"e\"\n{})\n",
        n,
        (0..n).map(|i| format!(" lstring {}{}; \"x\"\n", ["gene_name", "_mouseOver", "exp_ids", "score2_", "x"][i % 5], i)).collect::<String>()
    );
    // the declaration's own name is an identifier too (autoSql turns it into a C struct name): my_table, _t2
    let custom_table = custom.replacen(&format!("table custom{}", n), &format!("table {}{}", if n % 2 == 0 { "my_table" } else { "_t" }, n), 1);
    // the same schema with a table comment that pushes the text past 8 KiB (a multi-byte character near the mark)
    let custom_long = custom.replacen("\"custom \u{3b1}\"", &format!("\"custom {}\u{3b1}\u{4e2d}{}\"", "c".repeat(8150 + n % 7), " more".repeat(40 + n)), 1);
    // field and table names may carry index annotations and `auto`, in every combination the grammar allows
    const ANNOT: &[&str] = &["", " primary", " unique", " index", " index[8]", " auto", " primary auto", " unique auto", " index[12] auto"];
    let custom_annot = format!(
        "table annot{}{}\n\"annotated\"\n(\n string chrom; \"c\"\n uint chromStart; \"s\"\n uint chromEnd; \"e\"\n{})\n",
        n,
        ANNOT[n % ANNOT.len()],
        (0..n).map(|i| format!(" uint id{}{}; \"x\"\n", i, ANNOT[(i + 1 + n) % ANNOT.len()])).collect::<String>()
    );
    // empty comments ("") on the table and on every field: legal, and each is followed by more text
    let custom_empty_comments = custom.replace("\"custom \u{3b1}\"", "\"\"").replace("\"c\"", "\"\"").replace("\"s\"", "\"\"").replace("\"e\"", "\"\"").replace("\"x\"", "\"\"");
    for (label, autosql, want_text, want_count) in [
        ("generated", Some(schema.clone()), Some(schema.clone()), 3 + n),
        ("custom_empty_comments", Some(custom_empty_comments.clone()), Some(custom_empty_comments.clone()), 3 + n),
        ("custom_with_index_annotations", Some(custom_annot.clone()), Some(custom_annot.clone()), 3 + n),
        ("custom_snake_case_field_names", Some(custom_names.clone()), Some(custom_names.clone()), 3 + n),
        ("custom_snake_case_table_name", Some(custom_table.clone()), Some(custom_table.clone()), 3 + n),
        ("custom", Some(custom.clone()), Some(custom.clone()), 3 + n),
        ("custom_crlf", Some(custom_crlf.clone()), Some(custom_crlf.clone()), 3 + n),
        ("custom_longer_than_8KiB", Some(custom_long.clone()), Some(custom_long.clone()), 3 + n),
        ("custom_tabs_vt_ff", Some(custom_ws.clone()), Some(custom_ws.clone()), 3 + n),
        ("custom_helper_type_then_table", Some(helper_then_table.clone()), Some(helper_then_table.clone()), 3 + n),
        ("default", None, Some(BED3.to_string()), 3),
    ] {
        let input: BbInput = vec![(Chrom { name: "chr1".into(), size: 1000 }, vec![BedEntry { start: 1, end: 10, rest: rest.clone() }, BedEntry { start: 5, end: 20, rest: rest.clone() }])];
        let mut o = WOpts::default_small();
        o.multipass = n % 2 == 0;
        let sink = MemSink::new();
        let res = wr::write_bb(sink.clone(), &input, &o, autosql, None, &[]);
        if !matches!(res, CallResult::Ok) {
            out.viol("write_failed", label, J::s(res.short()));
            continue;
        }
        let bytes = sink.bytes();
        let rd = wr::guard(|| -> Result<(u16, u16, Option<String>), String> {
            let mut rd = BigBedRead::open(Cursor::new(bytes.clone())).map_err(|e| e.to_string())?;
            let h = rd.info().header;
            Ok((h.field_count, h.defined_field_count, rd.autosql().map_err(|e| e.to_string())?))
        });
        match rd {
            Ok(Ok((fc, dfc, text))) => {
                if fc as usize != want_count {
                    out.viol("header_field_count_wrong", label, J::obj().set("field_count", (fc as u32).into()).set("defined_field_count", (dfc as u32).into()).set("expected", want_count.into()));
                }
                if text != want_text {
                    out.viol("autosql_not_verbatim", label, J::obj().set("got", text.map(J::S).unwrap_or(J::Null)));
                }
                out.count("files_checked", 1);
            }
            Ok(Err(e)) => out.viol("read_failed", label, J::s(e)),
            Err(p) => out.viol("read_panicked", wr::panic_site(&p), J::Null),
        }
    }
    out
}

const TYPES: &[&str] = &["int", "uint", "short", "ushort", "byte", "ubyte", "float", "double", "char", "string", "lstring", "bigint"];

/// Grammar-based generator; returns the schema as a token list (tokens are re-joined with
/// varying whitespace) and the number of fields of the last declaration.
fn gen_schema(r: &mut Rng) -> (Vec<String>, usize) {
    let mut t: Vec<String> = vec![];
    let ndecl = r.range(1, 3);
    let mut last_fields = 0;
    for d in 0..ndecl {
        t.push(r.pick(&["table", "simple", "object"]).to_string());
        t.push(format!("name{}", d));
        match r.below(5) {
            0 => t.push("primary".into()),
            1 => t.push("unique".into()),
            2 => {
                t.push("index".into());
                if r.chance(1, 2) {
                    t.push("[".into());
                    t.push(format!("{}", r.range(1, 40)));
                    t.push("]".into());
                }
            }
            _ => {}
        }
        if r.chance(1, 4) {
            t.push("auto".into());
        }
        t.push(match r.below(4) {
            0 => "\"\"".to_string(),
            1 => "\"a comment; with (odd) [chars], \u{3b1}\"".to_string(),
            _ => "\"Plain comment\"".to_string(),
        });
        t.push("(".into());
        let nf = r.range(0, 8) as usize;
        last_fields = nf;
        for f in 0..nf {
            match r.below(8) {
                0 => {
                    t.push("enum".into());
                    t.push("(".into());
                    let k = r.range(1, 4);
                    for i in 0..k {
                        t.push(format!("v{}", i));
                        if i + 1 < k {
                            t.push(",".into());
                        }
                    }
                    t.push(")".into());
                }
                1 => {
                    t.push("set".into());
                    t.push("(".into());
                    let k = r.range(1, 4);
                    for i in 0..k {
                        t.push(format!("s{}", i));
                        if i + 1 < k {
                            t.push(",".into());
                        }
                    }
                    t.push(")".into());
                }
                2 => {
                    t.push(r.pick(&["simple", "object", "table"]).to_string());
                    t.push(format!("sub{}", f));
                }
                _ => t.push(r.pick(TYPES).to_string()),
            }
            if r.chance(1, 4) {
                t.push("[".into());
                t.push(if r.chance(1, 2) { format!("{}", r.range(1, 99)) } else { "countField".to_string() });
                t.push("]".into());
            }
            t.push(format!("field{}", f));
            match r.below(6) {
                0 => t.push("primary".into()),
                1 => t.push("unique".into()),
                2 => {
                    t.push("index".into());
                    if r.chance(1, 2) {
                        t.push("[".into());
                        t.push("12".into());
                        t.push("]".into());
                    }
                }
                _ => {}
            }
            if r.chance(1, 6) {
                t.push("auto".into());
            }
            t.push(";".into());
            t.push(if r.chance(1, 5) { "\"\"".to_string() } else { format!("\"field {} comment\"", f) });
        }
        t.push(")".into());
    }
    (t, last_fields)
}

fn join(r: &mut Rng, t: &[String]) -> String {
    let mut s = String::new();
    for (i, tok) in t.iter().enumerate() {
        if i > 0 {
            match r.below(6) {
                0 => s.push('\n'),
                1 => s.push_str("  "),
                2 if matches!(tok.as_str(), "(" | ")" | "[" | "]" | "," | ";") => {}
                _ => s.push(' '),
            }
        }
        s.push_str(tok);
    }
    s
}

fn judge_total(out: &mut Outcome, text: &str, what: &str) {
    out.count("parses", 1);
    match parse_guarded(text) {
        Ok(Ok(_)) => out.count("parsed_ok", 1),
        Ok(Err(_)) => out.count("parsed_err", 1),
        Err(p) => out.viol("parser_panicked", format!("{}:{}", what, wr::panic_site(&p)), J::obj().set("text", J::s(wr::truncate(text, 600))).set("panic", J::s(p.join("|")))),
    }
}

/// c19t: one grammar-generated schema per case: itself, every prefix (by characters and by
/// tokens), single-token deletions / duplications / swaps.
pub fn c19t(ctx: &Ctx, begin: &mut dyn FnMut(J)) -> Outcome {
    let mut r = Rng::derive(ctx.seed, 0xC19A, ctx.case);
    let (toks, _nf) = gen_schema(&mut r);
    let text = join(&mut r, &toks);
    begin(J::obj().set("schema", J::s(wr::truncate(&text, 800))).set("tokens", toks.len().into()));
    let mut out = Outcome::new();
    let mut f = Fnv::new();
    f.str(&text);
    out.hash = f.hex();
    out.nontrivial = toks.len() > 8;
    judge_total(&mut out, &text, "generated");
    // every character prefix (on char boundaries)
    for (i, _) in text.char_indices() {
        judge_total(&mut out, &text[..i], "char_prefix");
    }
    // every token prefix, and token-level mutations
    for k in 0..toks.len() {
        let pre = toks[..k].join(" ");
        judge_total(&mut out, &pre, "token_prefix");
        let mut del = toks.clone();
        del.remove(k);
        judge_total(&mut out, &del.join(" "), "token_deleted");
        let mut dup = toks.clone();
        dup.insert(k, toks[k].clone());
        judge_total(&mut out, &dup.join(" "), "token_duplicated");
        if k + 1 < toks.len() {
            let mut sw = toks.clone();
            sw.swap(k, k + 1);
            judge_total(&mut out, &sw.join(" "), "tokens_swapped");
        }
        // a multi-byte character glued to / inserted before the token (cursor arithmetic on char boundaries)
        let mut mb = toks.clone();
        mb[k] = format!("\u{e9}{}\u{3b1}", toks[k]);
        judge_total(&mut out, &mb.join(" "), "multibyte_glued_to_token");
        let mut ins = toks.clone();
        ins.insert(k, "\u{2003}\u{e9}".to_string());
        judge_total(&mut out, &ins.join(""), "multibyte_inserted_no_spaces");
    }
    out
}

const ALPHABET: &[&str] = &["(", ")", "[", "]", ",", ";", "\"", " ", "enum", "set", "table", "x", "int"];

/// c19x: all strings of <= 5 tokens over the delimiter alphabet; case = first two tokens.
pub fn c19x(ctx: &Ctx, begin: &mut dyn FnMut(J)) -> Outcome {
    let n = ALPHABET.len();
    let mut out = Outcome::new();
    let k = ctx.case as usize;
    begin(J::obj().set("first_tokens", J::s(if k < n * n { format!("{:?} {:?}", ALPHABET[k / n], ALPHABET[k % n]) } else { "short strings".into() })));
    out.hash = format!("pfx{}", k);
    out.nontrivial = true;
    if k == n * n {
        // lengths 0 and 1
        judge_total(&mut out, "", "short");
        for a in ALPHABET {
            judge_total(&mut out, a, "short");
        }
        return out;
    }
    if k > n * n {
        out.inconclusive = Some("blocked_by:none beyond enumeration".into());
        return out;
    }
    let (a, b) = (ALPHABET[k / n], ALPHABET[k % n]);
    for sep in ["", " "] {
        let base = format!("{}{}{}", a, sep, b);
        judge_total(&mut out, &base, "enumerated");
        for c in ALPHABET {
            let s3 = format!("{}{}{}", base, sep, c);
            judge_total(&mut out, &s3, "enumerated");
            for d in ALPHABET {
                let s4 = format!("{}{}{}", s3, sep, d);
                judge_total(&mut out, &s4, "enumerated");
                for e in ALPHABET {
                    let s5 = format!("{}{}{}", s4, sep, e);
                    judge_total(&mut out, &s5, "enumerated");
                }
            }
        }
    }
    // the same strings as the body of a table, where the field grammar is reached
    for c in ALPHABET {
        for d in ALPHABET {
            let body = format!("table t \"c\" ( {} {} {} {}", a, b, c, d);
            judge_total(&mut out, &body, "enumerated_in_table_body");
            judge_total(&mut out, &format!("{} )", body), "enumerated_in_table_body");
        }
    }
    out
}
