//! Shared seeded generators. Everything is a deterministic function of the Rng.
use crate::util::{Fnv, Rng, J};
use bigtools::{BedEntry, Value};

pub const CHROM_POOL: &[&str] = &[
    "chr1", "chr10", "chr2", "chrX", "chrY_random", "a", "Z", "chrUn_gl000220", "\u{e9}", "chr11",
    "chr1_alt", "B",
];

#[derive(Clone, Debug)]
pub enum Zoom {
    Auto { initial: u32, max: u32 },
    Manual(Vec<u32>),
    /// a manual list together with a `max_zooms` smaller than the list (the manual list overrides max_zooms)
    ManualWithMax(Vec<u32>, u32),
}

#[derive(Clone, Debug, PartialEq, Eq)]
pub enum Source {
    /// in-process iterator of (chrom, value)
    Serial,
    /// text file parsed by the serial file source
    SerialText,
    /// text file, `index_chroms` + per-chromosome parallel source
    Parallel,
}

#[derive(Clone, Debug)]
pub struct WOpts {
    pub compress: bool,
    pub items_per_slot: u32,
    pub block_size: u32,
    pub zoom: Zoom,
    pub inmemory: bool,
    pub channel_size: usize,
    /// 0 = current-thread runtime, n = multi-thread with n workers
    pub workers: usize,
    pub multipass: bool,
    pub source: Source,
    /// InputSortType::ALL (true) or START (false)
    pub sort_all: bool,
}

impl WOpts {
    pub fn default_small() -> Self {
        WOpts {
            compress: true,
            items_per_slot: 3,
            block_size: 3,
            zoom: Zoom::Auto { initial: 10, max: 3 },
            inmemory: true,
            channel_size: 100,
            workers: 2,
            multipass: false,
            source: Source::Serial,
            sort_all: true,
        }
    }
    pub fn to_json(&self) -> J {
        J::obj()
            .set("compress", self.compress.into())
            .set("ips", self.items_per_slot.into())
            .set("bs", self.block_size.into())
            .set(
                "zoom",
                match &self.zoom {
                    Zoom::Auto { initial, max } => J::s(format!("auto:{}x{}", initial, max)),
                    Zoom::Manual(v) => J::s(format!("manual:{:?}", v)),
                    Zoom::ManualWithMax(v, m) => J::s(format!("manual:{:?}+max_zooms={}", v, m)),
                },
            )
            .set("inmem", self.inmemory.into())
            .set("chan", self.channel_size.into())
            .set("workers", self.workers.into())
            .set("multipass", self.multipass.into())
            .set("source", J::s(match self.source { Source::Serial => "serial", Source::SerialText => "serialtext", Source::Parallel => "parallel" }))
            .set("sort_all", self.sort_all.into())
    }
    /// The part of the options that may legitimately change output bytes.
    pub fn format_key(&self) -> String {
        format!(
            "c{}i{}b{}z{:?}m{}",
            self.compress as u8, self.items_per_slot, self.block_size, self.zoom, self.multipass as u8
        )
    }
    pub fn hash_into(&self, f: &mut Fnv) {
        f.str(&self.to_json().to_string());
    }
}

pub const IPS: &[u32] = &[1, 2, 3, 5, 16, 1024];
pub const BS: &[u32] = &[2, 3, 4, 5, 16, 256];
pub const WORKERS: &[usize] = &[0, 1, 2, 3, 4, 8, 16];
pub const CHAN: &[usize] = &[0, 1, 100];

pub fn gen_zoom(r: &mut Rng) -> Zoom {
    match r.below(10) {
        8 => Zoom::ManualWithMax(vec![10, 40, 160], 1),
        9 => Zoom::ManualWithMax(vec![7, 13, 1000, 4000], *r.pick(&[0, 2])),
        0 => Zoom::Manual(vec![4]),
        1 => Zoom::Manual(vec![10, 40]),
        2 => Zoom::Manual(vec![7, 13, 1000]),
        3 => Zoom::Manual(vec![1]),
        4 => Zoom::Auto { initial: 2, max: *r.pick(&[1, 3, 10]) },
        5 => Zoom::Auto { initial: 10, max: *r.pick(&[0, 1, 3, 10]) },
        6 => Zoom::Auto { initial: 160, max: *r.pick(&[1, 3, 10]) },
        _ => Zoom::Manual(vec![*r.pick(&[2, 5, 100]), 400]),
    }
}

/// Random option vector. `allow_parallel` is false where no scratch file is
/// available.
pub fn gen_opts(r: &mut Rng, allow_parallel: bool) -> WOpts {
    let workers = *r.pick(WORKERS);
    WOpts {
        compress: r.chance(2, 3),
        items_per_slot: *r.pick(IPS),
        block_size: *r.pick(BS),
        zoom: gen_zoom(r),
        inmemory: r.chance(1, 2),
        channel_size: *r.pick(CHAN),
        workers,
        multipass: r.chance(1, 2),
        source: if allow_parallel { match r.below(8) { 0 | 1 => Source::Parallel, 2 => Source::SerialText, _ => Source::Serial } } else { Source::Serial },
        sort_all: true,
    }
}

/// Options biased to small slots / fan-outs so ranges cross blocks and index
/// nodes.
pub fn gen_opts_small(r: &mut Rng, allow_parallel: bool) -> WOpts {
    let mut o = gen_opts(r, allow_parallel);
    o.items_per_slot = *r.pick(&[1, 2, 3, 5]);
    o.block_size = *r.pick(&[2, 3, 4]);
    o
}

#[derive(Clone, Debug)]
pub struct Chrom {
    pub name: String,
    pub size: u32,
}

/// 1..=max chromosomes, distinct names. Sorted by byte order when `sorted`.
pub fn gen_chroms(r: &mut Rng, max: usize, sorted: bool, huge_ok: bool) -> Vec<Chrom> {
    let n = r.range(1, max as u64) as usize;
    let mut pool: Vec<&str> = CHROM_POOL.to_vec();
    r.shuffle(&mut pool);
    let mut v: Vec<Chrom> = pool[..n]
        .iter()
        .map(|nm| {
            let size = if huge_ok && r.chance(1, 12) {
                *r.pick(&[u32::MAX, 1 << 31, (1u32 << 31) + 12345, 3_000_000_000])
            } else {
                match r.below(4) {
                    0 => r.range(50, 300) as u32,
                    1 => r.range(300, 2000) as u32,
                    _ => r.range(1000, 6000) as u32,
                }
            };
            Chrom { name: nm.to_string(), size }
        })
        .collect();
    if sorted {
        v.sort_by(|a, b| a.name.as_bytes().cmp(b.name.as_bytes()));
    }
    v
}

pub const EXACT_VALUES: &[f32] = &[
    1.0, 2.0, 3.0, 0.5, 0.25, -1.0, -2.5, 4.0, 7.0, 10.0, 100.0, 0.125, -0.5, 1.5, 6.0,
];

pub fn gen_value(r: &mut Rng, exact: bool) -> f32 {
    if exact {
        return *r.pick(EXACT_VALUES);
    }
    match r.below(10) {
        0 => 0.0,
        1 => -0.0,
        2 => f32::from_bits(r.range(1, 0x007f_ffff) as u32), // subnormal
        3 => 1e30 * (r.range(1, 9) as f32),
        4 => 1e-30 * (r.range(1, 9) as f32),
        5 | 6 => *r.pick(EXACT_VALUES),
        7 => -(r.below(100000) as f32) / 7.0,
        _ => loop {
            let v = f32::from_bits(r.next() as u32);
            if v.is_finite() {
                break v;
            }
        },
    }
}

#[derive(Clone, Debug, Default)]
pub struct LayoutCfg {
    /// resolutions that gaps / lengths are drawn relative to
    pub resolutions: Vec<u32>,
    pub allow_zero_len: bool,
    pub exact_values: bool,
    pub max_items: usize,
}

/// bigWig values for one chromosome: sorted, non-overlapping, within [0,size].
pub fn gen_bw_chrom(r: &mut Rng, size: u32, cfg: &LayoutCfg) -> Vec<Value> {
    let mut out = vec![];
    let res: Vec<u32> = if cfg.resolutions.is_empty() { vec![10, 40, 160] } else { cfg.resolutions.clone() };
    let target = match r.below(6) {
        0 => 1,
        1 => r.range(2, 4) as usize,
        _ => r.range(3, cfg.max_items.max(4) as u64) as usize,
    };
    let sparse_size = size as u64 > 100_000;
    let mut pos: u64 = if r.chance(1, 3) {
        0
    } else if sparse_size && r.chance(1, 2) {
        *r.pick(&[(1u64 << 31) - 20, (1u64 << 31) + 5, size as u64 - 500.min(size as u64)])
    } else {
        r.below((size as u64 / 4).max(1))
    };
    let regime = r.below(4); // 0 dense, 1 sparse, 2 mixed, 3 long values
    while out.len() < target && pos < size as u64 {
        let rs = *r.pick(&res) as u64;
        let mut len = match (regime, r.below(6)) {
            (0, _) => r.range(1, 4),
            (3, 0..=2) => rs * r.range(1, 4) + r.below(3),
            (_, 0) => rs,
            (_, 1) => rs.saturating_sub(1).max(1),
            (_, 2) => rs * r.range(2, 3) + r.below(2),
            _ => r.range(1, 12),
        };
        if cfg.allow_zero_len && r.chance(1, 14) {
            len = 0;
        }
        let mut end = (pos + len).min(size as u64);
        if r.chance(1, 25) && (size as u64 - pos) < 20_000 {
            end = size as u64; // value ending exactly on the chromosome end
        }
        // occasionally snap the end onto a multiple of a resolution
        if end > pos + 1 && r.chance(1, 6) {
            let snapped = end / rs * rs;
            if snapped > pos {
                end = snapped;
            }
        }
        out.push(Value { start: pos as u32, end: end as u32, value: gen_value(r, cfg.exact_values) });
        let gap = match (regime, r.below(7)) {
            (0, 0..=4) => 0,
            (_, 0) => 0,
            (_, 1) => rs.saturating_sub(1),
            (_, 2) => rs,
            (_, 3) => rs + 1,
            (_, 4) => rs * r.range(2, 6) + r.below(rs),
            (1, _) => rs * r.range(3, 12),
            _ => r.range(1, 9),
        };
        pos = end + gap;
        if sparse_size && r.chance(1, 5) {
            pos = pos.max(r.below(size as u64));
        }
    }
    if out.is_empty() {
        let e = size.min(5).max(1);
        out.push(Value { start: 0, end: e, value: gen_value(r, cfg.exact_values) });
    }
    // a zero-length value sitting exactly on the chromosome end
    if cfg.allow_zero_len && r.chance(1, 10) && out.last().map(|v| v.end <= size).unwrap_or(true) {
        out.push(Value { start: size, end: size, value: gen_value(r, cfg.exact_values) });
        return out;
    }
    // last value touching the chromosome end sometimes
    if r.chance(1, 10) {
        let last_end = out.last().unwrap().end;
        if last_end < size {
            out.push(Value { start: size - 1, end: size, value: gen_value(r, cfg.exact_values) });
        }
    }
    out
}

pub fn gen_rest(r: &mut Rng, ncols: usize) -> String {
    const WORDS: &[&str] = &["x", "name1", "0", "1000", "+", "-", ".", "\u{3b1}\u{3b2}", "a b", "0,1,2,", "gene-\u{fc}", "12.5"];
    let mut cols = vec![];
    for _ in 0..ncols {
        let w = match r.below(4) {
            0 => format!("f{}", r.below(1000)),
            _ => r.pick(WORDS).to_string(),
        };
        cols.push(w);
    }
    // an empty column (also as the first one: the rest then starts with a tab) and a leading blank are ordinary
    // tab-separated content; the last column stays non-blank because trailing white space is outside what the
    // text parsers promise to keep
    for i in 0..ncols.saturating_sub(1) {
        match r.below(14) {
            0 => cols[i] = String::new(),
            1 => cols[i] = format!(" {}", cols[i]),
            _ => {}
        }
    }
    cols.join("\t")
}

#[derive(Clone, Debug, Default)]
pub struct BedCfg {
    pub resolutions: Vec<u32>,
    pub allow_zero_len: bool,
    pub max_items: usize,
    pub ncols: Option<usize>,
    /// never emit an entry with start == end == 0 (owner: C02, finding F15)
    pub no_zero_zero: bool,
}

/// bigBed entries for one chromosome: start-sorted, start < size.
pub fn gen_bb_chrom(r: &mut Rng, size: u32, cfg: &BedCfg, ncols: usize) -> Vec<BedEntry> {
    let res: Vec<u32> = if cfg.resolutions.is_empty() { vec![10, 40, 160] } else { cfg.resolutions.clone() };
    let target = match r.below(6) {
        0 => 1,
        1 => r.range(2, 4) as usize,
        _ => r.range(3, cfg.max_items.max(4) as u64) as usize,
    };
    let regime = r.below(5); // 0 disjoint 1 overlapping 2 nested 3 long-then-short 4 mixed
    let mut out: Vec<BedEntry> = vec![];
    let mut pos: u64 = if r.chance(1, 3) { 0 } else { r.below((size as u64 / 4).max(1)) };
    let size64 = size as u64;
    if regime == 3 && size > 40 {
        // one very long entry first, then many short ones inside it
        let s = pos.min(size64 / 8);
        let e = (s + size64 * r.range(5, 9) / 10).min(size64);
        out.push(BedEntry { start: s as u32, end: e as u32, rest: gen_rest(r, ncols) });
        pos = s + r.below(3);
    }
    while out.len() < target && pos < size64 {
        let rs = *r.pick(&res) as u64;
        let mut len = match r.below(6) {
            0 => rs,
            1 => rs * r.range(2, 4) + r.below(3),
            2 => 1,
            _ => r.range(1, 15),
        };
        if regime == 3 {
            len = r.range(1, 6);
        }
        if cfg.allow_zero_len && r.chance(1, 14) {
            len = 0;
        }
        let mut end = pos + len;
        if end > size64 && r.chance(3, 4) {
            end = size64; // entries may legitimately run past the chromosome end only sometimes
        }
        if end > u32::MAX as u64 {
            end = u32::MAX as u64;
        }
        if cfg.no_zero_zero && pos == 0 && end == 0 {
            end = 1;
        }
        out.push(BedEntry { start: pos as u32, end: end as u32, rest: gen_rest(r, ncols) });
        // next start
        let step = match (regime, r.below(6)) {
            (0, _) => len + match r.below(5) { 0 => 0, 1 => rs, 2 => rs + 1, 3 => rs * r.range(2, 8), _ => r.range(1, 9) },
            (1, _) => r.below(len.max(1) + 2),
            (2, _) => r.below(3),
            (3, _) => r.range(0, 7),
            (_, 0) => 0, // identical start (duplicate-ish)
            (_, 1) => len,
            (_, 2) => len + rs * r.range(1, 5),
            _ => r.below(len + 8),
        };
        if step == 0 && r.chance(1, 2) {
            // exact duplicate of the previous entry
            let prev = out.last().unwrap().clone();
            if out.len() < target {
                out.push(prev);
            }
        }
        pos += step;
    }
    if out.is_empty() {
        out.push(BedEntry { start: 0, end: size.min(5).max(1), rest: gen_rest(r, ncols) });
    }
    out
}

pub type BwInput = Vec<(Chrom, Vec<Value>)>;
pub type BbInput = Vec<(Chrom, Vec<BedEntry>)>;

pub fn gen_bw_input(r: &mut Rng, max_chroms: usize, cfg: &LayoutCfg, huge_ok: bool) -> BwInput {
    let chroms = gen_chroms(r, max_chroms, true, huge_ok);
    chroms
        .into_iter()
        .map(|c| {
            let v = gen_bw_chrom(r, c.size, cfg);
            (c, v)
        })
        .collect()
}

pub fn gen_bb_input(r: &mut Rng, max_chroms: usize, cfg: &BedCfg) -> BbInput {
    let chroms = gen_chroms(r, max_chroms, true, false);
    let ncols = cfg.ncols.unwrap_or_else(|| match r.below(5) {
        0 => 0,
        1 => 1,
        2 => 3,
        3 => r.range(4, 9) as usize,
        _ => r.range(10, 20) as usize,
    });
    chroms
        .into_iter()
        .map(|c| {
            let v = gen_bb_chrom(r, c.size, cfg, ncols);
            (c, v)
        })
        .collect()
}

pub fn bw_input_json(inp: &BwInput) -> J {
    J::A(inp
        .iter()
        .map(|(c, vs)| {
            J::obj()
                .set("chrom", J::s(c.name.clone()))
                .set("size", c.size.into())
                .set(
                    "values",
                    J::A(vs
                        .iter()
                        .map(|v| J::A(vec![v.start.into(), v.end.into(), J::s(format!("{:e}", v.value)), J::U(v.value.to_bits() as u64)]))
                        .collect()),
                )
        })
        .collect())
}

pub fn bb_input_json(inp: &BbInput) -> J {
    J::A(inp
        .iter()
        .map(|(c, vs)| {
            J::obj()
                .set("chrom", J::s(c.name.clone()))
                .set("size", c.size.into())
                .set(
                    "entries",
                    J::A(vs.iter().map(|v| J::A(vec![v.start.into(), v.end.into(), J::s(v.rest.clone())])).collect()),
                )
        })
        .collect())
}

pub fn bw_hash(inp: &BwInput, f: &mut Fnv) {
    for (c, vs) in inp {
        f.str(&c.name);
        f.u64(c.size as u64);
        for v in vs {
            f.u64(v.start as u64);
            f.u64(v.end as u64);
            f.u64(v.value.to_bits() as u64);
        }
    }
}
pub fn bb_hash(inp: &BbInput, f: &mut Fnv) {
    for (c, vs) in inp {
        f.str(&c.name);
        f.u64(c.size as u64);
        for v in vs {
            f.u64(v.start as u64);
            f.u64(v.end as u64);
            f.str(&v.rest);
        }
    }
}

pub fn bw_to_bedgraph_text(inp: &BwInput) -> String {
    let mut s = String::new();
    for (c, vs) in inp {
        for v in vs {
            s.push_str(&format!("{}\t{}\t{}\t{}\n", c.name, v.start, v.end, fmt_f32(v.value)));
        }
    }
    s
}
pub fn bb_to_bed_text(inp: &BbInput) -> String {
    let mut s = String::new();
    for (c, vs) in inp {
        for v in vs {
            if v.rest.is_empty() {
                s.push_str(&format!("{}\t{}\t{}\n", c.name, v.start, v.end));
            } else {
                s.push_str(&format!("{}\t{}\t{}\t{}\n", c.name, v.start, v.end, v.rest));
            }
        }
    }
    s
}
/// Shortest decimal that round-trips the f32.
pub fn fmt_f32(v: f32) -> String {
    format!("{:?}", v)
}
