#!/usr/bin/env python3
"""Regenerates MANIFEST.json from lib/props.py (single source of truth for claims)."""
import json
import subprocess
import sys
sys.path.insert(0, "/verif/lib")
import props

ALL = ["C%02d" % i for i in range(1, 21)]
hook_commits = subprocess.run(["git", "-C", "/repo", "log", "--format=%h %s", "--grep=^verif hooks:"], capture_output=True, text=True).stdout.strip().splitlines()
checks = []
for pid in ALL:
    if pid not in props.PROPS:
        continue
    c = props.PROPS[pid]
    checks.append(dict(
        property_id=pid,
        quick_cmd="./check %s --tier quick" % pid,
        thorough_cmd="./check %s --tier thorough" % pid,
        evidence_file="/verif/evidence/%s.json" % pid,
        replay_cmd_template="./check %s --replay {path}" % pid,
        engine="bvh+check",
        level_claimed=dict(category=c["level"], text=c.get("level_text", c["rule"][:600]), design_ref=c.get("design_ref", "DESIGN.md section 5 (%s)" % pid)),
        level_note=c.get("level_note", "; ".join(c.get("assumptions", [])) or "see DESIGN.md"),
        technique=c.get("technique", "runtime monitoring: generated workloads + reference-model oracle"),
    ))
na = [dict(property_id=p, reason=props.NOT_APPLICABLE.get(p, "check not built yet in this session; will be claimed once its monitor runs silent on the unchanged tree")) for p in ALL if p not in props.PROPS]
m = dict(
    version=1,
    setup_cmd="python3 /verif/lib/build.py harness relassert cli pyext miri",
    hooks=dict(
        guard="bigtools_verif",
        enable="RUSTFLAGS='--cfg bigtools_verif' (harness crate /verif/harness path-depends on /repo/bigtools; CLI and pybigtools built from /repo with the same flag into /verif/target)",
        baseline_off_cmd="cd /repo && cargo test --workspace --no-fail-fast --offline",
        source_commits=[l.split()[0] for l in hook_commits],
        add_only=True,
    ),
    engines=[
        dict(name="bvh", path="/verif/harness", serves_properties=[c["property_id"] for c in checks], kind_free_text="Rust harness: seeded generators, reference models, independent BBI walker, recording/fault sink, hook callback (delays, trace, invariants)"),
        dict(name="check", path="/verif/check", serves_properties=[c["property_id"] for c in checks], kind_free_text="Python driver: builds from /repo's working tree, shards workers, watchdog, three-valued aggregation, known-findings, evidence"),
    ],
    checks=checks,
    not_applicable=na,
    notes="See DESIGN.md. Exit 2 from a check means the check itself is broken/inconclusive (never a verdict).",
)
json.dump(m, open("/verif/MANIFEST.json", "w"), indent=1)
print("wrote MANIFEST.json with", len(checks), "checks;", len(na), "not claimed")
