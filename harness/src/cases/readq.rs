//! `bvh readq --arg <queryfile>`: execute a line-based list of read operations on files that
//! bigtools did not write and print what the readers return (JSON lines). The oracle for these
//! answers lives outside (pybbi/encode.py knows the content it encoded).
//!
//! Query file grammar (one op per line, fields separated by a single TAB):
//!   FILE <path>                 -- subsequent ops refer to this file
//!   CHROMS                      -- chromosome table
//!   INFO                        -- header info (version, zooms, field counts, compressed?)
//!   SUMMARY
//!   INTERVAL <chrom> <s> <e>
//!   VALUES <chrom> <s> <e>
//!   ZOOM <chrom> <s> <e> <reduction>
//!   AUTOSQL | ITEMCOUNT         -- bigBed only
//! Every op is run on four reader flavours where applicable: plain typed reader, `.cached()`, one `.cached()` reader kept for all ops of the file,
//! and through `GenericBBIRead`. Output: {"op":line_no,"flavour":..,"ok":true,...} or
//! {"op":..,"flavour":..,"ok":false,"err":"..."} / "panic":"..."
use crate::util::J;
use crate::wr;
use bigtools::{BBIFileRead, BBIRead, BigBedRead, BigWigRead, GenericBBIRead};
use std::io::Cursor;

fn summ_json(s: &bigtools::Summary) -> J {
    J::obj()
        .set("total_items", s.total_items.into())
        .set("bases_covered", s.bases_covered.into())
        .set("min", J::U(s.min_val.to_bits()))
        .set("max", J::U(s.max_val.to_bits()))
        .set("sum", J::U(s.sum.to_bits()))
        .set("sumsq", J::U(s.sum_squares.to_bits()))
}

fn zoom_json(z: &bigtools::ZoomRecord) -> J {
    J::A(vec![
        z.start.into(),
        z.end.into(),
        z.summary.bases_covered.into(),
        J::U((z.summary.min_val as f32).to_bits() as u64),
        J::U((z.summary.max_val as f32).to_bits() as u64),
        J::U((z.summary.sum as f32).to_bits() as u64),
        J::U((z.summary.sum_squares as f32).to_bits() as u64),
    ])
}

fn info_json(i: &bigtools::BBIFileInfo) -> J {
    J::obj()
        .set("version", (i.header.version as u32).into())
        .set("field_count", (i.header.field_count as u32).into())
        .set("defined_field_count", (i.header.defined_field_count as u32).into())
        .set("compressed", i.header.is_compressed().into())
        .set("filetype", J::s(format!("{:?}", i.filetype)))
        .set("zooms", J::A(i.zoom_headers.iter().map(|z| J::U(z.reduction_level as u64)).collect()))
}

fn chroms_json(c: &[bigtools::ChromInfo]) -> J {
    J::A(c.iter().map(|c| J::A(vec![J::s(c.name.clone()), c.length.into()])).collect())
}

fn bw_op<R: BBIFileRead>(rd: &mut BigWigRead<R>, f: &[&str]) -> Result<J, String> {
    let num = |i: usize| -> Result<u32, String> { f.get(i).ok_or("missing field")?.parse::<u32>().map_err(|e| e.to_string()) };
    Ok(match f[0] {
        "CHROMS" => chroms_json(rd.chroms()),
        "INFO" => info_json(rd.info()),
        "SUMMARY" => summ_json(&rd.get_summary().map_err(|e| e.to_string())?),
        "INTERVAL" => J::A(
            rd.get_interval(f[1], num(2)?, num(3)?)
                .map_err(|e| e.to_string())?
                .map(|v| v.map(|v| J::A(vec![v.start.into(), v.end.into(), J::U(v.value.to_bits() as u64)])).map_err(|e| e.to_string()))
                .collect::<Result<Vec<_>, _>>()?,
        ),
        "VALUES" => J::A(rd.values(f[1], num(2)?, num(3)?).map_err(|e| e.to_string())?.into_iter().map(|v| J::U(v.to_bits() as u64)).collect()),
        "ZOOM" => J::A(
            rd.get_zoom_interval(f[1], num(2)?, num(3)?, num(4)?)
                .map_err(|e| e.to_string())?
                .map(|z| z.map(|z| zoom_json(&z)).map_err(|e| e.to_string()))
                .collect::<Result<Vec<_>, _>>()?,
        ),
        other => return Err(format!("HARNESS unsupported bigWig op {}", other)),
    })
}

fn bb_op<R: BBIFileRead>(rd: &mut BigBedRead<R>, f: &[&str]) -> Result<J, String> {
    let num = |i: usize| -> Result<u32, String> { f.get(i).ok_or("missing field")?.parse::<u32>().map_err(|e| e.to_string()) };
    Ok(match f[0] {
        "CHROMS" => chroms_json(rd.chroms()),
        "INFO" => info_json(rd.info()),
        "SUMMARY" => summ_json(&rd.get_summary().map_err(|e| e.to_string())?),
        "AUTOSQL" => rd.autosql().map_err(|e| e.to_string())?.map(J::S).unwrap_or(J::Null),
        "ITEMCOUNT" => J::U(rd.item_count().map_err(|e| e.to_string())?),
        "INTERVAL" => J::A(
            rd.get_interval(f[1], num(2)?, num(3)?)
                .map_err(|e| e.to_string())?
                .map(|v| v.map(|v| J::A(vec![v.start.into(), v.end.into(), J::s(v.rest)])).map_err(|e| e.to_string()))
                .collect::<Result<Vec<_>, _>>()?,
        ),
        "ZOOM" => J::A(
            rd.get_zoom_interval(f[1], num(2)?, num(3)?, num(4)?)
                .map_err(|e| e.to_string())?
                .map(|z| z.map(|z| zoom_json(&z)).map_err(|e| e.to_string()))
                .collect::<Result<Vec<_>, _>>()?,
        ),
        other => return Err(format!("HARNESS unsupported bigBed op {}", other)),
    })
}

pub fn run(arg: &str) -> i32 {
    let text = match std::fs::read_to_string(arg) {
        Ok(t) => t,
        Err(e) => {
            eprintln!("cannot read {}: {}", arg, e);
            return 2;
        }
    };
    let mut bytes: Vec<u8> = vec![];
    let mut is_bw = true;
    // one caching reader per file that lives across all of the file's ops: its answers depend on the history of
    // earlier queries (cached blocks and index nodes, where the last read left the file)
    let mut pers_bw = None;
    let mut pers_bb = None;
    for (ln, line) in text.lines().enumerate() {
        let f: Vec<&str> = line.split('\t').collect();
        if f.is_empty() || f[0].is_empty() || f[0].starts_with('#') {
            continue;
        }
        if f[0] == "FILE" {
            bytes = std::fs::read(f[1]).unwrap_or_default();
            is_bw = bytes.len() >= 4 && {
                let m = u32::from_le_bytes([bytes[0], bytes[1], bytes[2], bytes[3]]);
                m == 0x888F_FC26 || m.swap_bytes() == 0x888F_FC26
            };
            pers_bw = None;
            pers_bb = None;
            continue;
        }
        for flavour in ["plain", "cached", "generic", "cached_persistent"] {
            let b = bytes.clone();
            let r = wr::guard(|| -> Result<J, String> {
                if flavour == "cached_persistent" {
                    return if is_bw {
                        if pers_bw.is_none() {
                            pers_bw = Some(BigWigRead::open(Cursor::new(b)).map_err(|e| format!("open: {}", e))?.cached());
                        }
                        bw_op(pers_bw.as_mut().unwrap(), &f)
                    } else {
                        if pers_bb.is_none() {
                            pers_bb = Some(BigBedRead::open(Cursor::new(b)).map_err(|e| format!("open: {}", e))?.cached());
                        }
                        bb_op(pers_bb.as_mut().unwrap(), &f)
                    };
                }
                if is_bw {
                    match flavour {
                        "plain" => bw_op(&mut BigWigRead::open(Cursor::new(b)).map_err(|e| format!("open: {}", e))?, &f),
                        "cached" => bw_op(&mut BigWigRead::open(Cursor::new(b)).map_err(|e| format!("open: {}", e))?.cached(), &f),
                        _ => {
                            let g = GenericBBIRead::open(Cursor::new(b)).map_err(|e| format!("open: {}", e))?;
                            bw_op(&mut g.bigwig().ok_or("generic reader did not classify the file as bigWig")?, &f)
                        }
                    }
                } else {
                    match flavour {
                        "plain" => bb_op(&mut BigBedRead::open(Cursor::new(b)).map_err(|e| format!("open: {}", e))?, &f),
                        "cached" => bb_op(&mut BigBedRead::open(Cursor::new(b)).map_err(|e| format!("open: {}", e))?.cached(), &f),
                        _ => {
                            let g = GenericBBIRead::open(Cursor::new(b)).map_err(|e| format!("open: {}", e))?;
                            bb_op(&mut g.bigbed().ok_or("generic reader did not classify the file as bigBed")?, &f)
                        }
                    }
                }
            });
            if r.is_err() && flavour == "cached_persistent" {
                // a panic may have left the reader half-updated: start a new one for the next op
                pers_bw = None;
                pers_bb = None;
            }
            let j = match r {
                Ok(Ok(v)) => J::obj().set("op", ln.into()).set("flavour", flavour.into()).set("ok", true.into()).set("result", v),
                Ok(Err(e)) => J::obj().set("op", ln.into()).set("flavour", flavour.into()).set("ok", false.into()).set("err", J::s(e)),
                Err(p) => J::obj().set("op", ln.into()).set("flavour", flavour.into()).set("ok", false.into()).set("panic", J::s(p.join(" | "))),
            };
            crate::proto::emit(&j);
        }
    }
    crate::proto::emit(&J::obj().set("ev", "done".into()));
    0
}
