"""Independent Python implementation of the UCSC BBI (bigWig / bigBed) container format.

decode.py -- validating decoder (collects problems, never raises on malformed content)
encode.py -- encoder over a cross product of legal layouts (byte order, compression, tree shapes, ...)

Written from the format description only; shares no code with bigtools.
"""
