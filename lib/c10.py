"""C10: any well-formed BBI file is read correctly, whoever wrote it.

pybbi/encode.py (an independent encoder) produces files over the cross product
  {little, big endian} x {zlib, raw} x {bigWig with section types 1/2/3 mixed, bigBed}
  x chromosome-tree block size {1,2,3,256} (1-4 levels) x R-tree fan-out {2,3,5,256} (depth 1-4+)
  x node placement {level, reverse level, children first, shuffled, a non-leaf node last in the file}
  x version 1..4 (v1 without total summary) x 0-3 zoom levels, with/without the UCSC u32 zoom count word,
  padded/unpadded nodes, chromosome tree before/after the data.
Every file is first cross-checked against pybbi/decode.py (a disagreement is a codec bug: the case is inconclusive and
the check reports itself broken). The harness (`bvh readq`) then answers a list of queries through the plain, cached
and generic readers; the expected answers are computed here from the abstract content.
"""
import hashlib
import json
import math
import multiprocessing
import os
import random
import struct
import subprocess
import sys
import time

sys.path.insert(0, "/verif")
sys.path.insert(0, "/verif/lib")

import pyleg  # noqa: E402
import runner  # noqa: E402
from pybbi import encode as E  # noqa: E402

QUICK_FILES = 1500
THOROUGH_FILES = 60000
BATCH = 100  # files per query file / readq process
READQ_TIMEOUT_S = 120
NSHARDS = 16
FLAVOURS = ("plain", "cached", "generic", "cached_persistent")
BVH = runner.HARNESS_BIN["release"]


# ---------------------------------------------------------------------------------- case generation

def make_case(seed, index):
    """(content, layout) of case `index`; deterministic in (seed, index)"""
    rng = random.Random(seed * 1000003 + index * 7919 + 17)
    kind = "bigwig" if rng.random() < 0.55 else "bigbed"
    ct_block = rng.choice([1, 2, 3, 256])
    if ct_block == 1:
        n_chroms = 1
    elif ct_block == 256:
        n_chroms = rng.randrange(1, 6)
    else:
        n_chroms = rng.choice([1, 2, 3, 4, 5, rng.randrange(5, 13)])
    many = n_chroms > 5
    content = E.gen_content(rng, kind, n_chroms=n_chroms, max_items=12 if many else 60)
    layout = E.gen_layout(rng, content, node_order=E.NODE_ORDERS[index % len(E.NODE_ORDERS)], ct_block=ct_block)
    return content, layout


def _points(items, size, rng):
    pts = {0, size}
    for it in items:
        for p in (it[0], it[1]):
            for q in (p - 1, p, p + 1):
                if 0 <= q <= size:
                    pts.add(q)
    return sorted(pts)


def _ranges(pts, rng, n, max_len=None):
    out = set()
    tries = 0
    while len(out) < n and tries < 10 * n and len(pts) >= 2:
        tries += 1
        a, b = rng.sample(pts, 2)
        s, e = min(a, b), max(a, b)
        if s == e:
            continue
        if max_len is not None and e - s > max_len:
            e = s + max_len
        out.add((s, e))
    return sorted(out)


def make_queries(content, layout, model, seed, index):
    """[(op tuple)] -- op[0] is the verb; the text line is TAB-joined"""
    rng = random.Random(seed * 1000003 + index * 7919 + 99)
    kind = content["kind"]
    ops = [("CHROMS",), ("INFO",), ("SUMMARY",)]
    if kind == "bigbed":
        ops += [("AUTOSQL",), ("ITEMCOUNT",)]
    for (nm, sz) in model["chroms"]:
        items = E.items_of(content, nm)
        ops.append(("INTERVAL", nm, 0, sz))
        pts = _points(items, sz, rng)
        nq = 10 if len(model["chroms"]) <= 5 else 4
        for (s, e) in _ranges(pts, rng, nq):
            ops.append(("INTERVAL", nm, s, e))
        if kind == "bigwig":
            for (s, e) in _ranges(pts, rng, 3, max_len=300):
                ops.append(("VALUES", nm, s, e))
        for red in layout["zooms"]:
            recs = [r for r in model["zoom"][red] if r[0] == nm]
            ops.append(("ZOOM", nm, 0, sz, red))
            zp = _points([(r[2], r[3]) for r in recs], sz, rng)
            for (s, e) in _ranges(zp, rng, 2):
                ops.append(("ZOOM", nm, s, e, red))
    return ops


# ---------------------------------------------------------------------------------- expected answers

def _site_cell(content, layout, model):
    if content["kind"] == "bigwig":
        t = "+".join("type%d" % x for x in model["types_present"])
        s = "bigwig:" + t
    else:
        s = "bigbed"
    return s + (":big_endian" if layout["byteorder"] == ">" else ":little_endian")


def _bw_site(content, layout, model, nm, s, e):
    """section types of the values the query touches (falls back to the chromosome's types)"""
    vals = content["values"].get(nm, [])
    types = model["item_types"].get(nm, [])
    hit = sorted(set(types[i] for i, (a, b, _) in enumerate(vals) if max(a, s) < min(b, e)))
    if not hit:
        hit = sorted(set(types))
    t = "+".join("type%d" % x for x in hit) if hit else "no_data"
    return "bigwig:" + t + (":big_endian" if layout["byteorder"] == ">" else ":little_endian")


def _subseq_check(got, stored, classify):
    """got: list of hashable records; stored: the stored records in order; classify(rec) -> 'must' | 'may' | 'not'.
    Identical records share their class, so greedy matching is exact. -> (missing, spurious)"""
    p = 0
    missing = []
    for rec in stored:
        c = classify(rec)
        if c == "not":
            continue
        if p < len(got) and got[p] == rec:
            p += 1
        elif c == "must":
            missing.append(rec)
    return missing, got[p:]


def judge_op(op, rec, content, layout, model):
    """rec: the harness answer {"ok":..,"result":..}. -> [(class, site, detail)]"""
    kind = content["kind"]
    endian = "big_endian" if layout["byteorder"] == ">" else "little_endian"
    cell = _site_cell(content, layout, model)
    verb = op[0]
    if not rec.get("ok"):
        site = "nonleaf_node_last_in_file" if model["facts"]["nonleaf_node_last_in_file"] else cell
        if "panic" in rec:
            return [("reader_panicked", site, dict(op=op, panic=rec["panic"]))]
        err = rec.get("err", "")
        if err.startswith("HARNESS"):
            return [("HARNESS", "", err)]
        if err.startswith("open:"):
            return [("open_failed", site, dict(op=op, err=err))]
        return [("query_failed", site, dict(op=op, err=err))]
    got = rec.get("result")
    if verb == "CHROMS":
        want = [[nm, sz] for (nm, sz) in model["chroms"]]
        if got != want:
            return [("chroms_wrong", "%s:ct_levels_%d:%s" % (kind, model["facts"]["ct_levels"], endian), dict(got=got, want=want))]
    elif verb == "INFO":
        want = dict(version=layout["version"], field_count=content.get("field_count", 0) if kind == "bigbed" else 0,
                    defined_field_count=content.get("defined_field_count", 0) if kind == "bigbed" else 0,
                    compressed=bool(layout["compress"]), filetype="BigWig" if kind == "bigwig" else "BigBed", zooms=list(layout["zooms"]))
        if got != want:
            bad = sorted(k for k in want if not isinstance(got, dict) or got.get(k) != want[k])
            return [("info_wrong", "%s:%s:%s" % (kind, "+".join(bad), endian), dict(got=got, want=want))]
    elif verb == "SUMMARY":
        ts = model["total_summary"]
        if ts is None:
            want = dict(total_items=model["data_count"], bases_covered=0, min=0, max=0, sum=0, sumsq=0)
        else:
            want = dict(total_items=model["data_count"], bases_covered=ts[0], min=E.f64_bits(ts[1]), max=E.f64_bits(ts[2]), sum=E.f64_bits(ts[3]), sumsq=E.f64_bits(ts[4]))
        if got != want:
            bad = sorted(k for k in want if not isinstance(got, dict) or got.get(k) != want[k])
            return [("summary_wrong", "%s:%s:version%d:%s" % (kind, "+".join(bad), layout["version"], endian), dict(got=got, want=want))]
    elif verb == "AUTOSQL":
        if got != content.get("autosql"):
            return [("autosql_wrong", "bigbed:" + endian, dict(got=got, want=content.get("autosql")))]
    elif verb == "ITEMCOUNT":
        if got != model["data_count"]:
            return [("itemcount_wrong", "bigbed:" + endian, dict(got=got, want=model["data_count"]))]
    elif verb == "INTERVAL":
        _, nm, s, e = op
        if kind == "bigwig":
            want = [[max(a, s), min(b, e), E.f32_bits(v)] for (a, b, v) in content["values"].get(nm, []) if max(a, s) < min(b, e)]
            if got != want:
                return [("interval_wrong", _bw_site(content, layout, model, nm, s, e), dict(op=op, got=_short(got), want=_short(want)))]
        else:
            stored = [(a, b, r) for (a, b, r) in content["entries"].get(nm, [])]

            def cls(x):
                a, b, _ = x
                if max(a, s) < min(b, e):
                    return "must"
                if b < s or a > e:
                    return "not"
                return "may"
            try:
                g = [(x[0], x[1], x[2]) for x in got]
            except Exception:
                return [("interval_wrong", cell, dict(op=op, got=_short(got)))]
            missing, spurious = _subseq_check(g, stored, cls)
            if missing:
                return [("interval_entry_missing", cell, dict(op=op, missing=_short(missing), got=_short(got)))]
            if spurious:
                return [("interval_entry_spurious_or_out_of_order", cell, dict(op=op, unexpected=_short(spurious), got=_short(got)))]
    elif verb == "VALUES":
        _, nm, s, e = op
        want = [None] * (e - s)
        for (a, b, v) in content["values"].get(nm, []):
            for p in range(max(a, s), min(b, e)):
                want[p - s] = E.f32_bits(v)
        ok = isinstance(got, list) and len(got) == len(want)
        if ok:
            for g, w in zip(got, want):
                if w is None:
                    if not (isinstance(g, int) and (g & 0x7F800000) == 0x7F800000 and (g & 0x007FFFFF) != 0):
                        ok = False
                        break
                elif g != w:
                    ok = False
                    break
        if not ok:
            return [("values_wrong", _bw_site(content, layout, model, nm, s, e), dict(op=op, got=_short(got), want=_short(want)))]
    elif verb == "ZOOM":
        _, nm, s, e, red = op
        stored = [(r[2], r[3], r[4], E.f32_bits(r[5]), E.f32_bits(r[6]), E.f32_bits(r[7]), E.f32_bits(r[8])) for r in model["zoom"][red] if r[0] == nm]

        def zcls(x):
            a, b = x[0], x[1]
            if max(a, s) < min(b, e):
                return "must"
            if b < s or a > e:
                return "not"
            return "may"
        try:
            g = [tuple(x) for x in got]
        except Exception:
            return [("zoom_wrong", cell, dict(op=op, got=_short(got)))]
        missing, spurious = _subseq_check(g, stored, zcls)
        if missing:
            return [("zoom_record_missing", "%s:%s" % (kind, endian), dict(op=op, missing=_short(missing), got=_short(got)))]
        if spurious:
            return [("zoom_record_spurious_or_altered", "%s:%s" % (kind, endian), dict(op=op, unexpected=_short(spurious), got=_short(got), stored=_short(stored)))]
    return []


def _short(x):
    if isinstance(x, list) and len(x) > 12:
        return x[:12] + ["... %d more" % (len(x) - 12)]
    return x


# ---------------------------------------------------------------------------------- one batch = one readq process

def _tags(content, layout, model):
    f = model["facts"]
    t = ["endian:big" if layout["byteorder"] == ">" else "endian:little", "zlib" if layout["compress"] else "raw", content["kind"],
         "version:%d" % layout["version"], "ct_block:%d" % layout["ct_block"], "ct_levels:%d" % f["ct_levels"], "rt_block:%d" % layout["rt_block"],
         "rt_depth:%d" % min(f["rt_levels"], 5), "order:%s" % layout["node_order"], "zooms:%d" % len(layout["zooms"])]
    if content["kind"] == "bigwig":
        t.append("types:" + "+".join(str(x) for x in model["types_present"]))
    if f["nonleaf_node_last_in_file"]:
        t.append("nonleaf_node_last_in_file")
    if layout.get("pad_nodes"):
        t.append("padded_nodes")
    if layout.get("ct_pos") == "after_data":
        t.append("chrom_tree_after_data")
    if layout["zooms"] and layout.get("zoom_count_word"):
        t.append("zoom_count_word")
    if f.get("zoom_blocks_spanning_chroms"):
        t.append("zoom_block_spans_chromosomes")
    if not f["trailing_magic"]:
        t.append("no_trailing_magic")
    if model["total_summary"] is None:
        t.append("no_total_summary")
        if layout["version"] >= 2:
            t.append("no_total_summary_in_version_2_or_later")
    if f["index_last"]:
        t.append("main_index_last")
    return t


def _desc(content, layout, model, index):
    return dict(index=index, kind=content["kind"], layout=dict((k, v) for k, v in layout.items() if k != "order_seed"),
                chroms=len(content["chroms"]), items=sum(len(E.items_of(content, nm)) for (nm, _) in content["chroms"]),
                bytes=model["facts"]["bytes"], rt_levels=model["facts"]["rt_levels"], ct_levels=model["facts"]["ct_levels"])


def run_batch(args):
    """Generate, query and judge the files `indices`. Returns [case dict]."""
    seed, tier, scratch, indices, tag = args
    cases = []
    qlines = []
    plan = []  # (case dict, content, layout, model, [(line_no, op)])
    paths = []
    qpath = os.path.join(scratch, "c10_q_%s.txt" % tag)
    for index in indices:
        cd = dict(index=index, desc={}, hash="", nontrivial=False, tags=[], counts={}, violations=[], inconclusive=None, codec_error=None)
        cases.append(cd)
        try:
            content, layout = make_case(seed, index)
            data, model = E.encode_with_model(content, layout)
            cd["hash"] = hashlib.sha1(data).hexdigest()[:24]
            cd["desc"] = _desc(content, layout, model, index)
            cd["tags"] = _tags(content, layout, model)
            f = model["facts"]
            cd["nontrivial"] = f["rt_levels"] >= 2 or f["ct_levels"] >= 2 or layout["byteorder"] == ">"
            bad = E.cross_check(content, layout, data, model)
            if bad:
                cd["codec_error"] = "index %d: %s" % (index, "; ".join(bad)[:600])
                cd["inconclusive"] = "HARNESS codec disagreement (encoder vs decoder): " + cd["codec_error"]
                continue
            path = os.path.join(scratch, "c10_%d_%d.%s" % (seed, index, "bw" if content["kind"] == "bigwig" else "bb"))
            with open(path, "wb") as fh:
                fh.write(data)
            paths.append(path)
            ops = make_queries(content, layout, model, seed, index)
            qlines.append("FILE\t" + path)
            numbered = []
            for op in ops:
                numbered.append((len(qlines), op))
                qlines.append("\t".join(str(x) for x in op))
            plan.append((cd, content, layout, model, numbered))
        except Exception as e:  # our generator / encoder
            import traceback
            cd["inconclusive"] = "HARNESS generator raised %s: %s | %s" % (type(e).__name__, e, traceback.format_exc(limit=2)[-300:])
    answers = {}
    failure = None
    if plan:
        with open(qpath, "w", encoding="utf-8") as fh:
            fh.write("\n".join(qlines) + "\n")
        try:
            p = subprocess.run([BVH, "readq", "--arg", qpath], stdout=subprocess.PIPE, stderr=subprocess.DEVNULL, timeout=READQ_TIMEOUT_S,
                               env=dict(os.environ, RUST_BACKTRACE="0"))
            for line in p.stdout.decode("utf-8", "replace").splitlines():
                try:
                    j = json.loads(line)
                except Exception:
                    continue
                if "op" in j:
                    answers.setdefault(j["op"], {})[j.get("flavour")] = j
            if p.returncode != 0:
                failure = "readq exited with code %s" % p.returncode
        except subprocess.TimeoutExpired:
            failure = "readq did not finish within %d s" % READQ_TIMEOUT_S
        except Exception as e:
            failure = "readq could not be run: %s" % e
    for (cd, content, layout, model, numbered) in plan:
        try:
            _judge_file(cd, content, layout, model, numbered, answers, failure)
        except Exception as e:
            import traceback
            cd["violations"] = []
            cd["inconclusive"] = "HARNESS judge raised %s: %s | %s" % (type(e).__name__, e, traceback.format_exc(limit=2)[-300:])
    for p_ in paths + [qpath]:
        try:
            os.unlink(p_)
        except OSError:
            pass
    return cases


def _judge_file(cd, content, layout, model, numbered, answers, failure):
    seen = set()
    n_answers = 0
    for (ln, op) in numbered:
        fl = answers.get(ln, {})
        if len(fl) < len(FLAVOURS):
            cd["inconclusive"] = "HARNESS no answer for op %d (%s)%s" % (ln, op[0], ": " + failure if failure else "")
            cd["violations"] = []
            return
        per = {}
        for flav in FLAVOURS:
            n_answers += 1
            vs = judge_op(op, fl[flav], content, layout, model)
            per[flav] = vs
            for (cls, site, detail) in vs:
                if cls == "HARNESS":
                    cd["inconclusive"] = "HARNESS " + str(detail)
                    cd["violations"] = []
                    return
                if (cls, site) not in seen:
                    seen.add((cls, site))
                    d = dict(detail) if isinstance(detail, dict) else dict(detail=detail)
                    d["flavour"] = flav
                    cd["violations"].append((cls, site, json.dumps(d, default=str)[:1800]))
        # the three readers must agree with each other (even inside the oracle's "may" freedom)
        base = fl["plain"]
        for flav in FLAVOURS[1:]:
            o = fl[flav]
            if (o.get("ok"), o.get("result")) != (base.get("ok"), base.get("result")):
                site = "%s:%s_vs_plain" % (op[0].lower(), flav)
                if ("flavours_disagree", site) not in seen:
                    seen.add(("flavours_disagree", site))
                    cd["violations"].append(("flavours_disagree", site, json.dumps(dict(op=op, plain=_short(base.get("result", base.get("err"))), other=_short(o.get("result", o.get("err")))), default=str)[:1800]))
    cd["counts"] = dict(queries=len(numbered), answers=n_answers, blocks=model["facts"]["n_blocks"], zoom_blocks=sum(model["facts"]["zoom_blocks"]))


# ---------------------------------------------------------------------------------- the leg

def _run(tier, seed, scratch):
    n = QUICK_FILES if tier == "quick" else THOROUGH_FILES
    leg = pyleg.PyLeg("c10-foreign-files", cmd="c10", seed=seed, tier=tier)
    os.makedirs(scratch, exist_ok=True)
    jobs = []
    for sh in range(NSHARDS):
        idx = list(range(sh, n, NSHARDS))
        for b in range(0, len(idx), BATCH):
            jobs.append((seed, tier, scratch, idx[b:b + BATCH], "%d_%d_%d" % (seed, sh, b // BATCH)))
    results = []
    with multiprocessing.Pool(min(NSHARDS, runner.NCPU)) as pool:
        pending = [pool.apply_async(run_batch, (j,)) for j in jobs]
        deadline = time.time() + 3600
        for j, pr in zip(jobs, pending):
            try:
                results += pr.get(timeout=max(1.0, deadline - time.time()))
            except multiprocessing.TimeoutError:
                leg.error("batch %s did not finish" % j[4])
            except Exception as e:
                leg.error("batch %s raised %s: %s" % (j[4], type(e).__name__, e))
    for cd in sorted(results, key=lambda c: c["index"]):
        if cd.get("codec_error"):
            leg.error("codec disagreement: " + cd["codec_error"])
        leg.case(cd["desc"], hash=cd["hash"] or None, nontrivial=cd["nontrivial"], tags=cd["tags"], counts=cd["counts"],
                 violations=cd["violations"], inconclusive=cd["inconclusive"],
                 replay=dict(kind="c10", seed=seed, index=cd["index"], tier=tier), case_id=cd["index"])
    return leg.done()


def legs(tier, seed, scratch):
    return [dict(name="c10-foreign-files", run=lambda leg: _run(tier, seed, scratch))]


def replay(j, scratch):
    rp = j["replay"]
    seed, index, tier = rp["seed"], rp["index"], rp.get("tier", "quick")
    os.makedirs(scratch, exist_ok=True)
    content, layout = make_case(seed, index)
    print("replay of c10 file %d (seed %d): %s, layout %s" % (index, seed, content["kind"], json.dumps(layout)))
    cases = run_batch((seed, tier, scratch, [index], "replay_%d_%d" % (seed, index)))
    cd = cases[0]
    if cd["inconclusive"]:
        print("inconclusive:", cd["inconclusive"])
        return 0
    sigs = []
    for (cls, site, detail) in cd["violations"]:
        sig = cls + (":" + site if site else "")
        sigs.append(sig)
        print("  violation:", sig)
        print("  detail:", str(detail)[:2000])
    if j.get("signature") in sigs:
        print("VIOLATION property=C10 signature=%s reproduced" % j["signature"])
        return 1
    print("signature %s did not reproduce" % j.get("signature"))
    return 0


try:
    import props  # noqa: E402
    props.REPLAYERS["c10"] = replay
except Exception:
    pass
