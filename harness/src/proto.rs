//! Worker protocol: JSON lines on stdout, one `begin` before and one `end`
//! after every case.
use crate::util::J;
use std::io::Write;
use std::path::PathBuf;

#[derive(Clone, Copy, PartialEq, Eq, Debug)]
pub enum Tier {
    Quick,
    Thorough,
}

pub struct Ctx {
    pub seed: u64,
    pub tier: Tier,
    pub case: u64,
    pub scratch: PathBuf,
    pub arg: String,
}

pub struct Viol {
    pub class: String,
    pub site: String,
    pub detail: J,
}

#[derive(Default)]
pub struct Outcome {
    pub viols: Vec<Viol>,
    pub inconclusive: Option<String>,
    pub hash: String,
    pub nontrivial: bool,
    pub tags: Vec<String>,
    /// numeric observations, summed by the driver
    pub counts: Vec<(String, u64)>,
    pub note: Option<J>,
    /// named sets of strings; the driver unions them across cases and reports their sizes
    pub sets: Vec<(String, Vec<String>)>,
}

impl Outcome {
    pub fn new() -> Self {
        Self::default()
    }
    pub fn viol(&mut self, class: &str, site: impl Into<String>, detail: J) {
        let site = site.into();
        if !self.viols.iter().any(|v| v.class == class && v.site == site) {
            self.viols.push(Viol { class: class.to_string(), site, detail });
        }
    }
    pub fn tag(&mut self, t: impl Into<String>) {
        let t = t.into();
        if !self.tags.contains(&t) {
            self.tags.push(t);
        }
    }
    pub fn set_add(&mut self, name: &str, member: impl Into<String>) {
        let m = member.into();
        if let Some(e) = self.sets.iter_mut().find(|e| e.0 == name) {
            if !e.1.contains(&m) {
                e.1.push(m);
            }
        } else {
            self.sets.push((name.to_string(), vec![m]));
        }
    }
    pub fn count(&mut self, k: &str, n: u64) {
        if let Some(e) = self.counts.iter_mut().find(|e| e.0 == k) {
            e.1 += n;
        } else {
            self.counts.push((k.to_string(), n));
        }
    }
}

pub fn emit(j: &J) {
    let mut s = j.to_string();
    s.push('\n');
    let out = std::io::stdout();
    let mut l = out.lock();
    let _ = l.write_all(s.as_bytes());
    let _ = l.flush();
}

pub fn emit_begin(case: u64, desc: J) {
    emit(&J::obj().set("ev", "begin".into()).set("case", case.into()).set("desc", desc));
}

pub fn emit_end(case: u64, o: &Outcome) {
    let status = if !o.viols.is_empty() {
        "violated"
    } else if o.inconclusive.is_some() {
        "inconclusive"
    } else {
        "held"
    };
    let mut j = J::obj()
        .set("ev", "end".into())
        .set("case", case.into())
        .set("status", status.into())
        .set("hash", J::s(o.hash.clone()))
        .set("nt", o.nontrivial.into())
        .set("tags", J::A(o.tags.iter().map(|t| J::s(t.clone())).collect()))
        .set("counts", J::O(o.counts.iter().map(|(k, v)| (k.clone(), J::U(*v))).collect()))
        .set(
            "viols",
            J::A(o.viols
                .iter()
                .map(|v| J::obj().set("class", J::s(v.class.clone())).set("site", J::s(v.site.clone())).set("detail", v.detail.clone()))
                .collect()),
        );
    if !o.sets.is_empty() {
        j.put("sets", J::O(o.sets.iter().map(|(k, v)| (k.clone(), J::A(v.iter().map(|x| J::s(x.clone())).collect()))).collect()));
    }
    if let Some(i) = &o.inconclusive {
        j.put("why", J::s(i.clone()));
    }
    if let Some(n) = &o.note {
        j.put("note", n.clone());
    }
    emit(&j);
}
