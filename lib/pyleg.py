"""Helper for legs whose oracle lives in Python (C09, C10, C15-C17 tools, C20).

Usage:
    leg = PyLeg("c16-roundtrip", cmd="c16", seed=seed, tier=tier)
    leg.case(desc, hash="...", nontrivial=True, tags=["-t4"], counts={"conversions": 1},
             violations=[("content_mismatch", "bedgraph_roundtrip", {...detail...})],
             replay={"kind": "c16", "args": {...}})
    return leg.done()
"""
import hashlib
import json
import time

import runner


class PyLeg:
    def __init__(self, name, cmd="", seed=1, tier="quick"):
        self.res = runner.LegResult(name)
        self.cmd = cmd
        self.seed = seed
        self.tier = tier
        self.t0 = time.time()

    def case(self, desc, hash=None, nontrivial=True, tags=(), counts=None, violations=(), inconclusive=None, blocked=None, replay=None, case_id=None):
        r = self.res
        r.evaluations += 1
        if hash is None:
            hash = hashlib.sha1(json.dumps(desc, sort_keys=True, default=str).encode()).hexdigest()[:24]
        r.hashes.add(hash)
        if nontrivial:
            r.hashes_nt.add(hash)
        for t in tags:
            r.tags[t] += 1
        for k, v in (counts or {}).items():
            r.counts[k] += v
        if violations:
            for (cls, site, detail) in violations:
                sig = cls + (":" + site if site else "")
                r.violations.append(dict(sig=sig, case=case_id, detail=detail, desc=runner._shrink(desc), cmd=self.cmd, seed=self.seed, tier=self.tier, replay=replay))
        elif blocked:
            r.blocked += 1
            r.tags["blocked:" + blocked] += 1
        elif inconclusive:
            r.inconclusive.append((case_id, inconclusive))
        else:
            r.held += 1
        if len(r.samples) < 3:
            r.samples.append(runner._shrink(desc))

    def error(self, msg):
        self.res.harness_errors.append(msg)

    def done(self, extra=None):
        self.res.wall_s = time.time() - self.t0
        if extra:
            self.res.extra = extra
        return self.res
