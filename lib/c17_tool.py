"""C17 (tool part) -- bigwigaverageoverbed and bigwigvaluesoverbed, driven through the built binaries.

Even indices: one bigWig (written by the bedgraphtobigwig binary from a generated bedGraph on small
chromosomes), one BED region list, one (name mode, --min-max) choice; bigwigaverageoverbed is run with
-t N for N = 1, 16 and four more thread counts drawn per case from 2..15 (every count is seen across cases;
how the BED is cut depends on size mod N).  Oracle: exactly one output row per input row in input order, name
column as requested, size / covered bases / sum / mean0 / mean (/ min / max) within 5.01e-4 of a per-base
Python model built from the float32 values that were stored (the tool prints {:.3}), NaN mean/min/max when
nothing is covered, byte-identical output for every N.  A name column beyond the columns of the file must
be an error exit, not a panic.

Odd indices: bigwigvaluesoverbed: row i holds exactly end-start values and every covered base shows the
stored float32 value.  What is printed for an uncovered base is a declared don't-care (recorded as a note).

Scope: regions lie on chromosomes present in the bigWig, 0 <= start < end <= chromosome size.  The bigWig is
first read back with bigwigtobedgraph; if it does not hold the generated values the case is `blocked` on C16
(that is C16's finding, not C17's).
"""
import math
import os
import random

import clitext as ct
import props
import pyleg

KIND = "c17tool"
N_CASES = {"quick": 600, "thorough": 12000}  # half averageoverbed cases (6 invocations each), half valuesoverbed
THREADS = [1, 2, 3, 4, 8, 16]
TOL = 5.01e-4
CHROMS = ["chr1", "chr10", "chr2", "chrX", "a", "Z", "chrM"]


# ------------------------------------------------------------ generators --
def gen_bigwig(rng):
    names = sorted(rng.sample(CHROMS, rng.randint(1, 4)))
    sizes, data = {}, {}
    for nme in names:
        size = rng.choice([50, 200, 1000, 3000, rng.randint(50, 3000)])
        n = rng.choice([1, 2, 4, 9, 25, 60])
        ivs = []
        pos = 0 if rng.random() < 0.35 else rng.randint(0, size // 3)
        maxlen = max(1, size // n)
        for _ in range(n):
            gap = 0 if (ivs and rng.random() < 0.3) else (rng.randint(1, max(1, maxlen)) if ivs else 0)
            s = pos + gap
            if s >= size:
                break
            e = min(size, s + rng.choice([1, rng.randint(1, maxlen), rng.randint(1, 2 * maxlen)]))
            k = rng.random()
            if k < 0.4:
                v = rng.randint(-24, 24) / 8.0
            elif k < 0.5:
                v = 0.0
            elif k < 0.55 and ivs:
                v = ivs[-1][2]
            else:
                v = ct.f32(rng.uniform(-1000, 1000))
            ivs.append((s, e, v))
            pos = e
        if ivs and rng.random() < 0.25:
            s, e, v = ivs[-1]
            ivs[-1] = (s, size, v)
        sizes[nme] = size
        data[nme] = ivs
    text = "".join("%s\t%d\t%d\t%s\n" % (nme, s, e, ct.fmt_f32(v)) for nme in names for (s, e, v) in data[nme])
    sizes_text = "".join("%s\t%d\n" % (nme, sizes[nme]) for nme in names) + "chrUnused\t12345\n"
    build = dict(t=rng.choice([1, 2, 4]), block_size=rng.choice([None, 2, 4]), items_per_slot=rng.choice([None, 1, 3, 16]), unc=rng.random() < 0.3)
    return dict(names=names, sizes=sizes, data=data, text=text, sizes_text=sizes_text, build=build)


OVERHANG = 600


def per_base(bw):
    arr = {}
    for nme in bw["names"]:
        a = [None] * (bw["sizes"][nme] + OVERHANG)  # regions may run past the chromosome end: no data there
        for (s, e, v) in bw["data"][nme]:
            for i in range(s, e):
                a[i] = v
        arr[nme] = a
    return arr


def gen_region(rng, ivs, size, allow_zero=False):
    k = rng.random()
    if allow_zero and k >= 0.97:
        # a zero-length region (an insertion point): size 0, nothing covered -> NaN mean / min / max; what the
        # mean over the region (0/0) prints is not specified, only that it is the same for every -t
        if ivs and rng.random() < 0.6:
            s0, e0, _ = rng.choice(ivs)
            p = rng.randint(s0, e0)
        else:
            p = rng.randint(0, size)
        return "zero_length", p, p
    if k < 0.25:
        s0, e0, _ = rng.choice(ivs)
        s = rng.randint(s0, e0 - 1)
        return "inside", s, rng.randint(s + 1, e0)
    if k < 0.5:
        p = rng.choice([x for iv in ivs for x in iv[:2]])
        s = max(0, p - rng.randint(1, 20))
        e = min(size, p + rng.randint(1, 20))
        if s < e:
            return "straddling", s, e
    if k < 0.68:
        gaps = []
        prev = 0
        for (s0, e0, _) in ivs:
            if s0 > prev:
                gaps.append((prev, s0))
            prev = e0
        if prev < size:
            gaps.append((prev, size))
        if gaps:
            g0, g1 = rng.choice(gaps)
            s = rng.randint(g0, g1 - 1)
            return "uncovered", s, rng.randint(s + 1, g1)
    if k < 0.76:
        return "whole_chrom", 0, size
    if k < 0.86:
        s = rng.randint(0, size - 1)
        return "single_base", s, s + 1
    if k < 0.93:
        # the BED region runs past the end of the chromosome (its size is still end - start; nothing is stored there)
        if rng.random() < 0.6:
            s = rng.randint(max(0, size - 40), size - 1)
            return "straddling_chrom_end", s, size + rng.randint(1, OVERHANG - 50)
        s = size + rng.randint(0, 200)
        return "beyond_chrom_end", s, s + rng.randint(1, 300)
    s = rng.randint(0, size - 1)
    return "random", s, rng.randint(s + 1, size)


def _name(rng, i, profile, n):
    base = "r%d" % i
    if profile == "uniform":
        return base
    if profile == "one_huge" and i == (n // 2):
        return base + "_" + "L" * 20000
    if profile == "first_huge" and i == 0:
        return base + "_" + "F" * 9000
    if profile == "last_huge" and i == n - 1:
        return base + "_" + "E" * 9000
    if profile == "ragged":
        return base + "_" + "x" * rng.choice([0, 0, 1, 7, 60, 500, 3000])
    if profile == "growing":
        return base + "_" + "g" * (i * 3)
    if profile == "utf8":
        return base + "_" + rng.choice(["é", "名前", "Ωmega", "\U0001F9EC", "ü" * 40, ""]) * rng.choice([1, 1, 3, 50])
    return base


def gen_regions(rng, bw, tier, small=False):
    ncol = rng.randint(3, 6)
    if small:
        n = rng.choice([1, 2, 5, 12, 30])
    elif tier == "quick":
        n = rng.choice([1, 2, 3, 5, 11, 17, 60, 250])
    else:
        n = rng.choice([1, 2, 3, 5, 11, 17, 60, 250, 1000, 2500])
    profile = rng.choice(["uniform", "one_huge", "first_huge", "last_huge", "ragged", "growing", "utf8"]) if ncol >= 4 and not small else "uniform"
    rows, cats = [], {}
    for i in range(n):
        chrom = rng.choice(bw["names"])
        cat, s, e = gen_region(rng, bw["data"][chrom], bw["sizes"][chrom], allow_zero=not small)
        if small and e - s > 300:
            e = s + rng.randint(1, 300)
        cats[cat] = cats.get(cat, 0) + 1
        cols = [chrom, str(s), str(e)]
        if ncol >= 4:
            cols.append(_name(rng, i, profile, n))
        if ncol >= 5:
            cols.append(str(rng.randint(0, 1000)))
        if ncol >= 6:
            cols.append(rng.choice("+-."))
        rows.append(cols)
    final_newline = rng.random() < 0.6
    # one region file in seven has DOS line endings: the rows (and the name column) are the same rows
    eol = "\r\n" if rng.random() < 0.15 else "\n"
    text = eol.join("\t".join(c) for c in rows) + (eol if final_newline else "")
    return dict(ncol=ncol, rows=rows, text=text, profile=profile, final_newline=final_newline, categories=cats, crlf=(eol != "\n"))


# ------------------------------------------------------------------ build --
def build_bigwig(c, cwd, bw):
    """Returns True when in.bw exists and holds exactly the generated values."""
    ct.write(cwd, "data.bedGraph", bw["text"])
    ct.write(cwd, "chrom.sizes", bw["sizes_text"])
    b = bw["build"]
    argv = [ct.bin_path("bedgraphtobigwig"), "data.bedGraph", "chrom.sizes", "in.bw", "-t", str(b["t"]), "--parallel", "no"]
    if b["block_size"]:
        argv += ["--block-size", str(b["block_size"])]
    if b["items_per_slot"]:
        argv += ["--items-per-slot", str(b["items_per_slot"])]
    if b["unc"]:
        argv.append("-u")
    r = ct.run(argv, cwd)
    if not c.ran(r, "bedgraphtobigwig"):
        return False
    if r.rc != 0 or not ct.exists(cwd, "in.bw"):
        c.blocked = "C16"
        c.notes.append("bigWig construction failed (rc=%s): %s" % (r.rc, r.err[:200]))
        return False
    r = ct.run([ct.bin_path("bigwigtobedgraph"), "in.bw", "stored.bedGraph", "-t", "1"], cwd)
    if not c.ran(r, "bigwigtobedgraph"):
        return False
    want = [(nme, s, e, v) for nme in bw["names"] for (s, e, v) in bw["data"][nme]]
    got = []
    if r.rc == 0 and ct.exists(cwd, "stored.bedGraph"):
        for ln in ct.read(cwd, "stored.bedGraph").decode("utf-8", "replace").split("\n"):
            f = ln.split("\t")
            if len(f) == 4:
                got.append((f[0], int(f[1]), int(f[2]), ct.parse_f32(f[3])))
    if got != want:
        c.blocked = "C16"
        c.notes.append("the bigWig does not hold the generated values (round trip differs): C16's business")
        return False
    return True


def _argv0(cwd, tool, style):
    if style == "direct":
        return [ct.bin_path(tool)]
    if style == "bigtools_sub":
        return [ct.bin_path("bigtools"), tool]
    return [ct.symlink(cwd, {"bigwigaverageoverbed": "bigWigAverageOverBed", "bigwigvaluesoverbed": "bigWigValuesOverBed"}[tool])]


# ------------------------------------------------------- averageoverbed --
def model_row(arr, row, minmax):
    chrom, s, e = row[0], int(row[1]), int(row[2])
    vals = [v for v in arr[chrom][s:e] if v is not None]
    size = e - s
    bases = len(vals)
    total = math.fsum(vals)
    mean0 = (total / size) if size else None  # None = not judged (0/0)
    if bases:
        mean, mn, mx = total / bases, min(vals), max(vals)
    else:
        mean = mn = mx = math.nan
    out = [("size", size), ("bases", bases), ("sum", total), ("mean0", mean0), ("mean", mean)]
    if minmax:
        out += [("min", mn), ("max", mx)]
    return out


def expected_name(row, mode):
    if mode == "interval":
        return ["%s:%s-%s" % (row[0], row[1], row[2])]
    if mode == "none":
        full = "\t".join(row)
        return [full, full + "\t"] if len(row) == 3 else [full]
    return [row[mode - 1]]


def _avg_case(c, rng, seed, tier, index, cwd):
    tool = "bigwigaverageoverbed"
    bw = gen_bigwig(rng)
    reg = gen_regions(rng, bw, tier)
    ncol = reg["ncol"]
    # name mode
    k = rng.random()
    if k < 0.2:
        mode, nargs = (4, [])  # default: column 4
        mode_tag = "name:default_col4"
    elif k < 0.5:
        mode = rng.randint(1, ncol)
        nargs = [rng.choice(["-n", "--namecol"]), str(mode)]
        mode_tag = "name:column"
    elif k < 0.65:
        mode, nargs, mode_tag = "interval", ["-n", "interval"], "name:interval"
    elif k < 0.8:
        mode, nargs, mode_tag = "none", ["--namecol", "none"], "name:none"
    else:
        mode = ncol + rng.choice([1, 1, 2, 50])
        nargs = ["-n", str(mode)]
        mode_tag = "name:column_out_of_range"
    expect_error = isinstance(mode, int) and mode > ncol
    if expect_error and mode_tag == "name:default_col4":
        mode_tag = "name:default_col4_missing"
    minmax = rng.random() < 0.5
    style = rng.choice(["direct", "direct", "bigtools_sub", "symlink_ucsc"])
    opts_first = rng.random() < 0.5
    o = dict(name_mode=mode, name_args=nargs, min_max=minmax, style=style, opts_first=opts_first, bigwig_build=bw["build"])
    c.opts = dict(name_mode=mode_tag, min_max=minmax, style=style, ncol=ncol, profile=reg["profile"], final_newline=reg["final_newline"])
    c.desc = dict(tool=tool, opts=o, bigwig=dict(chroms=[[n, bw["sizes"][n], len(bw["data"][n])] for n in bw["names"]], bedgraph_head=bw["text"][:200]),
                  regions=dict(rows=len(reg["rows"]), columns=ncol, line_length_profile=reg["profile"], final_newline=reg["final_newline"],
                               categories=reg["categories"], head=reg["text"][:200]))
    c.hash = ct.sha(bw["text"], reg["text"], o)
    c.nontrivial = len(reg["rows"]) >= 2 and not expect_error
    c.tag(mode_tag, "min-max" if minmax else "no-min-max", "style:" + style, "bed_columns=%d" % ncol, "lines:" + reg["profile"],
          "rows<threads" if len(reg["rows"]) < 16 else "rows>=threads", "final_newline" if reg["final_newline"] else "no_final_newline",
          "line_endings:crlf" if reg.get("crlf") else "line_endings:lf")
    for cat in reg["categories"]:
        c.tag("region:" + cat)
    c.count("region_rows", len(reg["rows"]))
    if not build_bigwig(c, cwd, bw):
        return
    ct.write(cwd, "regions.bed", reg["text"])
    arr = per_base(bw)

    def detail(**kw):
        d = dict(commands=list(c.log), cwd_files={"data.bedGraph": ct.trunc(bw["text"], 1200), "chrom.sizes": bw["sizes_text"], "regions.bed": ct.trunc(reg["text"], 1200)},
                 note="run the commands in a directory holding these files")
        d.update(kw)
        return d

    outputs = {}
    threads = [1] + sorted(rng.sample(range(2, 16), 4)) + [16]
    for n in threads:
        out = "out_t%d.tsv" % n
        opts = ["-t", str(n)] + nargs + (["--min-max"] if minmax else [])
        pos = ["in.bw", "regions.bed", out]
        r = ct.run(_argv0(cwd, tool, style) + (opts + pos if opts_first else pos + opts), cwd)
        if not c.ran(r, tool):
            return
        c.tag("-t=%d" % n)
        where = tool + (":single_thread" if n == 1 else ":multi_thread")
        if r.panicked():
            c.viol("panic", where + (":name_column_out_of_range" if expect_error else ""), detail(rc=r.rc, stderr=r.err[:800], threads=n))
            continue
        if expect_error:
            c.count("error_exits_checked")
            if r.rc == 0:
                if ncol == 3 and mode == 4:
                    # An empty `rest` is counted as one column by the tool: column 4 of a 3-column file gives
                    # rows with an empty name and exit 0. The property does not define the name of a row whose
                    # requested column does not exist (the library leg treats it the same way): counted, not judged.
                    c.count("bed3_name_column_4_gives_empty_name_exit_0")
                else:
                    c.viol("exit_zero_on_invalid_name_column", where, detail(rc=r.rc, stderr=r.err[:400], threads=n, columns_in_file=ncol, requested_column=mode))
            continue
        if r.rc != 0:
            c.viol("nonzero_exit", where, detail(rc=r.rc, stderr=r.err[:800], threads=n))
            continue
        if not ct.exists(cwd, out):
            c.viol("exit_zero_but_no_output", where, detail(rc=r.rc, stderr=r.err[:400], threads=n))
            continue
        outputs[n] = ct.read(cwd, out)
    if expect_error or not outputs:
        return
    # identical for every N
    ref_n = min(outputs)
    for n in sorted(outputs):
        if outputs[n] != outputs[ref_n]:
            a = outputs[ref_n].split(b"\n")
            b = outputs[n].split(b"\n")
            i = 0
            while i < min(len(a), len(b)) and a[i] == b[i]:
                i += 1
            c.viol("output_differs_between_thread_counts", tool, detail(threads=[ref_n, n], first_differing_line=i, lines=[len(a) - 1, len(b) - 1],
                   line_a=ct.trunc(a[i] if i < len(a) else b"", 300), line_b=ct.trunc(b[i] if i < len(b) else b"", 300)))
            break
    # each distinct output against the model
    seen = {}
    for n in sorted(outputs):
        if outputs[n] in seen:
            continue
        seen[outputs[n]] = n
        _check_avg_output(c, outputs[n], reg, arr, mode, minmax, tool + (":single_thread" if n == 1 else ":multi_thread"), n, detail)


def _check_avg_output(c, data, reg, arr, mode, minmax, where, n, detail):
    txt = data.decode("utf-8", "replace")
    lines = txt.split("\n")
    if lines and lines[-1] == "":
        lines.pop()
    elif txt:
        c.viol("malformed_output", where + ":no_final_newline", detail(threads=n))
    rows = reg["rows"]
    nstat = 7 if minmax else 5
    parsed = []
    for ln in lines:
        f = ln.split("\t")
        if len(f) < nstat + 1:
            c.viol("malformed_output", where + ":field_count", detail(threads=n, line=ct.trunc(ln, 300), wanted_fields=nstat + 1))
            return
        parsed.append(("\t".join(f[:-nstat]), f[-nstat:]))
    if len(parsed) != len(rows):
        # which rows are missing / extra?  (by name when names identify rows)
        c.viol("row_count_wrong", where + (":fewer" if len(parsed) < len(rows) else ":more"),
               detail(threads=n, input_rows=len(rows), output_rows=len(parsed), output_head=ct.trunc(txt, 600)))
    names_ok = True
    bad_stat = None
    for i, (nm, stats) in enumerate(parsed[:len(rows)]):
        want_names = expected_name(rows[i], mode)
        if nm not in want_names:
            names_ok = False
            exp_all = [expected_name(r, mode)[0] for r in rows]
            got_all = [p[0] for p in parsed]
            site = ":rows_out_of_order" if sorted(exp_all) == sorted(got_all) else ":name_column_wrong"
            c.viol("row_order_or_name_wrong", where + site, detail(threads=n, row=i, expected_name=ct.trunc(want_names[0], 200), got_name=ct.trunc(nm, 200), input_row=[ct.trunc(x, 80) for x in rows[i]]))
            break
    if not names_ok:
        return
    for i, (nm, stats) in enumerate(parsed[:len(rows)]):
        model = model_row(arr, rows[i], minmax)
        c.count("rows_compared")
        for (field, want), got_txt in zip(model, stats):
            try:
                got = float(got_txt)
            except ValueError:
                bad_stat = (field + ":unparsable", i, want, got_txt)
                break
            if want is None:
                ok = True
            elif field in ("size", "bases"):
                ok = got_txt == str(want)
            elif want != want:
                ok = got != got
                if ok:
                    c.count("nan_fields_checked")
                    if got_txt != "NaN":
                        c.notes.append("NaN printed as %r" % got_txt)
            else:
                ok = got == got and abs(got - want) <= TOL
            if not ok:
                bad_stat = (field, i, want, got_txt)
                break
        if bad_stat:
            break
    if bad_stat:
        field, i, want, got_txt = bad_stat
        c.viol("stat_wrong", where + ":" + field, detail(threads=n, row=i, input_row=[ct.trunc(x, 80) for x in rows[i]], field=field, model=repr(want), printed=got_txt,
               model_row=[(k, repr(v)) for k, v in model_row(arr, rows[i], minmax)], printed_row=parsed[i][1]))


# ------------------------------------------------------- valuesoverbed --
def _val_case(c, rng, seed, tier, index, cwd):
    tool = "bigwigvaluesoverbed"
    bw = gen_bigwig(rng)
    reg = gen_regions(rng, bw, tier, small=True)
    names = rng.random() < 0.4 and reg["ncol"] >= 4
    delim = rng.choice([None, None, ",", ";", "\\t"])
    style = rng.choice(["direct", "direct", "bigtools_sub", "symlink_ucsc"])
    o = dict(names=names, delimiter=delim, style=style, bigwig_build=bw["build"])
    c.opts = dict(names=names, delimiter=delim, style=style, ncol=reg["ncol"])
    c.desc = dict(tool=tool, opts=o, bigwig=dict(chroms=[[n, bw["sizes"][n], len(bw["data"][n])] for n in bw["names"]], bedgraph_head=bw["text"][:200]),
                  regions=dict(rows=len(reg["rows"]), columns=reg["ncol"], categories=reg["categories"], head=reg["text"][:200]))
    c.hash = ct.sha(bw["text"], reg["text"], o)
    c.nontrivial = len(reg["rows"]) >= 2
    c.tag("names" if names else "no-names", "delimiter:" + (delim or "default"), "style:" + style, "bed_columns=%d" % reg["ncol"])
    for cat in reg["categories"]:
        c.tag("region:" + cat)
    if not build_bigwig(c, cwd, bw):
        return
    ct.write(cwd, "regions.bed", reg["text"])
    arr = per_base(bw)

    def detail(**kw):
        d = dict(commands=list(c.log), cwd_files={"data.bedGraph": ct.trunc(bw["text"], 1200), "chrom.sizes": bw["sizes_text"], "regions.bed": ct.trunc(reg["text"], 1200)},
                 note="run the commands in a directory holding these files")
        d.update(kw)
        return d

    argv = _argv0(cwd, tool, style) + ["in.bw", "regions.bed", "values.txt"] + (["-n"] if names else []) + (["-d", delim] if delim else [])
    r = ct.run(argv, cwd)
    if not c.ran(r, tool):
        return
    if r.panicked():
        c.viol("panic", tool, detail(rc=r.rc, stderr=r.err[:800]))
        return
    if r.rc != 0:
        c.viol("nonzero_exit", tool, detail(rc=r.rc, stderr=r.err[:800]))
        return
    if not ct.exists(cwd, "values.txt"):
        c.viol("exit_zero_but_no_output", tool, detail(rc=r.rc, stderr=r.err[:400]))
        return
    txt = ct.read(cwd, "values.txt").decode("utf-8", "replace")
    lines = txt.split("\n")
    if lines and lines[-1] == "":
        lines.pop()
    rows = reg["rows"]
    if len(lines) != len(rows):
        c.viol("row_count_wrong", tool + (":fewer" if len(lines) < len(rows) else ":more"), detail(input_rows=len(rows), output_rows=len(lines), output_head=ct.trunc(txt, 600)))
    sep = "\t" if delim in (None, "\\t") else delim
    fills = set()
    for i, ln in enumerate(lines[:len(rows)]):
        chrom, s, e = rows[i][0], int(rows[i][1]), int(rows[i][2])
        f = ln.split(sep)
        if names:
            f = f[1:]  # what the first field holds (name or chrom:start-end) is not part of the property
        if len(f) != e - s:
            c.viol("values_row_wrong", tool + ":value_count", detail(row=i, input_row=[ct.trunc(x, 80) for x in rows[i]], expected_values=e - s, got_values=len(f), line=ct.trunc(ln, 300)))
            break
        bad = None
        for k, t in enumerate(f):
            want = arr[chrom][s + k]
            if want is None:
                fills.add(t)
                c.count("uncovered_bases_seen")
                continue
            c.count("covered_bases_compared")
            try:
                got = ct.parse_f32(t)
            except ValueError:
                bad = (k, want, t)
                break
            if got != want:
                bad = (k, want, t)
                break
        if bad:
            c.viol("values_row_wrong", tool + ":covered_base_value", detail(row=i, input_row=[ct.trunc(x, 80) for x in rows[i]], base=s + bad[0], stored=repr(bad[1]), printed=bad[2], line=ct.trunc(ln, 300)))
            break
    if fills:
        c.notes.append("bigwigvaluesoverbed prints uncovered bases as %s (which constant is printed is a declared don't-care)" % "/".join(sorted(fills)[:4]))
        # Which fill is used is not demanded -- but it has to be ONE fill: a base without data must not be
        # reported with different values in different places (e.g. a value left over from another region).
        if len(fills) > 1:
            c.viol("uncovered_bases_reported_with_varying_values", tool, detail(distinct_printed_values=sorted(fills)[:8], rows=len(rows)))


# ------------------------------------------------------------------- legs --
def _case(c, seed, tier, index, cwd):
    rng = random.Random("%s:%s" % (seed, index))
    if index % 2 == 0:
        _avg_case(c, rng, seed, tier, index, cwd)
    else:
        _val_case(c, rng, seed, tier, index, cwd)


def _mk_leg(name, parity, n, seed, tier, scratch):
    def run(leg_dict):
        leg = pyleg.PyLeg(name, cmd=KIND, seed=seed, tier=tier)
        ct.run_cases(leg, _case, [i for i in range(n) if i % 2 == parity], seed, tier, os.path.join(scratch, name), KIND)
        return leg.done(extra=dict(notes=leg.res.notes))
    return {"name": name, "run": run}


def legs(tier, seed, scratch):
    n = N_CASES.get(tier, N_CASES["quick"])
    return [_mk_leg("c17-averageoverbed", 0, n, seed, tier, scratch), _mk_leg("c17-valuesoverbed", 1, n, seed, tier, scratch)]


def replay(j, scratch):
    return ct.replay_case(_case, j, os.path.join(scratch, "replay"))


props.REPLAYERS[KIND] = replay
