"""Encoder for BBI (bigWig / bigBed) files over a cross product of legal layouts.

    content = gen_content(rng, "bigwig" | "bigbed", ...)     # abstract content
    layout  = gen_layout(rng, content, ...)                   # how to lay it out
    data, model = encode_with_model(content, layout)          # bytes + what is stored (computed from the content)
    data = encode(content, layout)

content:
    kind      "bigwig" | "bigbed"
    chroms    [(name, size)]                       (any order; ids are assigned in bytewise key order)
    values    {name: [(start, end, value)]}        bigWig: sorted, disjoint, value exactly representable as f32
    runs      {name: [(type, n_items)]}            bigWig: how the values are cut into section types 1/2/3
    entries   {name: [(start, end, rest)]}         bigBed: sorted by start
    autosql, field_count, defined_field_count      bigBed
layout:
    byteorder "<" | ">", compress bool, zlevel, version 1..4, ct_block, ct_order, ct_pos "before_data"|"after_data",
    rt_block (fan-out), ips (items per data block), node_order in NODE_ORDERS, order_seed, pad_nodes bool,
    zooms [reduction...], zoom_ips, zoom_count_word bool, zoom_cross_chrom bool, no_summary bool, summary_in_v1 bool, trailing_magic bool, ubs_slack int
Python stdlib only; written from the format description, shares nothing with bigtools or with decode.py
except the statistics helpers' *definitions* (each module has its own implementation).
"""
import math
import random
import struct
import zlib

BIGWIG_MAGIC = 0x888FFC26
BIGBED_MAGIC = 0x8789F2EB
CHROM_TREE_MAGIC = 0x78CA8C91
RTREE_MAGIC = 0x2468ACE0

NODE_ORDERS = ["level", "reverse_level", "children_first", "shuffled", "nonleaf_last"]


class EncodeError(Exception):
    pass


def f32(x):
    """round a Python float to the nearest f32 (inf on overflow)"""
    try:
        return struct.unpack("<f", struct.pack("<f", x))[0]
    except OverflowError:
        return math.inf if x > 0 else -math.inf


def f32_bits(x):
    return struct.unpack("<I", struct.pack("<f", f32(x)))[0]


def f64_bits(x):
    return struct.unpack("<Q", struct.pack("<d", x))[0]


# ---------------------------------------------------------------------------------- the content model

def chrom_table(content):
    """[(name, id, size)] in chromosome-tree key order (bytewise); ids follow that order"""
    names = sorted(content["chroms"], key=lambda c: c[0].encode("utf-8"))
    return [(nm, i, sz) for i, (nm, sz) in enumerate(names)]


def items_of(content, name):
    return content["values" if content["kind"] == "bigwig" else "entries"].get(name, [])


def coverage_segments(content, name):
    """disjoint sorted [(start, end, value)]: the signal the summaries describe (bigBed: coverage depth)"""
    its = items_of(content, name)
    if content["kind"] == "bigwig":
        return [(s, e, v) for (s, e, v) in its if e > s]
    ev = {}
    for (s, e, _) in its:
        if e > s:
            ev[s] = ev.get(s, 0) + 1
            ev[e] = ev.get(e, 0) - 1
    out = []
    depth = 0
    prev = None
    for pos in sorted(ev):
        if depth > 0 and pos > prev:
            out.append((prev, pos, float(depth)))
        depth += ev[pos]
        prev = pos
    return out


class _Acc(object):
    def __init__(self):
        self.bases = 0
        self.min = None
        self.max = None
        self.sum = 0.0
        self.sumsq = 0.0

    def add(self, n, v):
        if n <= 0:
            return
        self.bases += n
        self.min = v if self.min is None else min(self.min, v)
        self.max = v if self.max is None else max(self.max, v)
        self.sum += n * v
        self.sumsq += n * v * v


def total_summary(content):
    """(bases, min, max, sum, sumsq) over the whole file; zeros when nothing is covered"""
    a = _Acc()
    for (nm, _, _) in chrom_table(content):
        for (s, e, v) in coverage_segments(content, nm):
            a.add(e - s, v)
    if a.bases == 0:
        return (0, 0.0, 0.0, 0.0, 0.0)
    return (a.bases, a.min, a.max, a.sum, a.sumsq)


def data_count(content, layout):
    if content["kind"] == "bigbed":
        return sum(len(v) for v in content["entries"].values())
    return sum(len(_sections_of(content, nm, layout["ips"])) for (nm, _, _) in chrom_table(content))


def zoom_records(content, reduction):
    """Tiling: per chromosome walk the covered bases; a record starts at the first covered base not yet in a record and
    takes the covered bases of the next `reduction` positions. -> [(name, id, start, end, valid, min, max, sum, sumsq)]
    with the four statistics already rounded to f32."""
    out = []
    for (nm, cid, _) in chrom_table(content):
        cur = None
        for (a, b, v) in coverage_segments(content, nm):
            pos = a
            while pos < b:
                if cur is None or pos >= cur[0] + reduction:
                    if cur is not None:
                        out.append(_zrec(nm, cid, cur))
                    cur = [pos, pos, _Acc()]
                take = min(b, cur[0] + reduction) - pos
                cur[2].add(take, v)
                cur[1] = pos + take
                pos += take
        if cur is not None:
            out.append(_zrec(nm, cid, cur))
    return out


def _zrec(nm, cid, cur):
    a = cur[2]
    return (nm, cid, cur[0], cur[1], a.bases, f32(a.min), f32(a.max), f32(a.sum), f32(a.sumsq))


def _sections_of(content, name, ips):
    """bigWig: [(type, [(s,e,v)...])] sections of one chromosome, each <= ips items"""
    vals = content["values"].get(name, [])
    runs = content.get("runs", {}).get(name) or [(1, len(vals))]
    if sum(n for _, n in runs) != len(vals):
        raise EncodeError("runs of %s do not add up to its values" % name)
    out = []
    p = 0
    for (typ, n) in runs:
        run = vals[p:p + n]
        p += n
        for i in range(0, len(run), ips):
            sec = run[i:i + ips]
            if typ in (2, 3):
                span = sec[0][1] - sec[0][0]
                if any(e - s != span for (s, e, _) in sec):
                    raise EncodeError("type %d section of %s with unequal spans" % (typ, name))
            if typ == 3 and len(sec) > 1:
                step = sec[1][0] - sec[0][0]
                if any(sec[k + 1][0] - sec[k][0] != step for k in range(len(sec) - 1)):
                    raise EncodeError("type 3 section of %s with unequal steps" % name)
            out.append((typ, sec))
    return out


def item_types(content, layout):
    """bigWig: {name: [section type of each value]}"""
    out = {}
    for (nm, _, _) in chrom_table(content):
        out[nm] = [typ for (typ, sec) in _sections_of(content, nm, layout["ips"]) for _ in sec]
    return out


# ---------------------------------------------------------------------------------- trees

class _Node(object):
    __slots__ = ("leaf", "items", "kids", "lo", "hi", "offset", "depth", "key")

    def __init__(self, leaf, items=None, kids=None):
        self.leaf = leaf
        self.items = items or []
        self.kids = kids or []
        self.offset = None
        self.depth = 0


def _order_nodes(root, order, rng):
    """all nodes except the root, in the order they are placed after the root"""
    bfs = []
    q = [root]
    root.depth = 0
    while q:
        nq = []
        for nd in q:
            for k in nd.kids:
                k.depth = nd.depth + 1
                bfs.append(k)
                nq.append(k)
        q = nq
    if order in ("level", "nonleaf_last"):
        out = list(bfs)
        if order == "nonleaf_last":
            nl = [x for x in out if not x.leaf]
            if nl:
                out.remove(nl[-1])
                out.append(nl[-1])
        return out
    if order == "reverse_level":
        return sorted(bfs, key=lambda x: -x.depth)  # stable: order within a level kept
    if order == "children_first":
        out = []

        def post(nd):
            for k in nd.kids:
                post(k)
            if nd is not root:
                out.append(nd)
        post(root)
        return out
    if order == "shuffled":
        out = list(bfs)
        rng.shuffle(out)
        return out
    raise EncodeError("unknown node order %r" % order)


def _build_rtree(leaf_items, fanout, min_levels=1):
    """leaf_items: [(sc, sb, ec, eb, offset, size)] -> root node"""
    level = []
    for i in range(0, max(1, len(leaf_items)), fanout):
        nd = _Node(True, items=leaf_items[i:i + fanout])
        if nd.items:
            nd.lo = min((x[0], x[1]) for x in nd.items)
            nd.hi = max((x[2], x[3]) for x in nd.items)
        else:
            nd.lo = nd.hi = (0, 0)
        level.append(nd)
    levels = 1
    while len(level) > 1 or levels < min_levels:
        up = []
        for i in range(0, len(level), fanout):
            kids = level[i:i + fanout]
            nd = _Node(False, kids=kids)
            nd.lo = min(k.lo for k in kids)
            nd.hi = max(k.hi for k in kids)
            up.append(nd)
        level = up
        levels += 1
    return level[0], levels


def _rtree_bytes(bo, base, leaf_items, fanout, ips, order, rng, pad, min_levels=1, n_items=None):
    """-> (bytes of header + nodes, info) for an R-tree whose header sits at file offset `base`"""
    root, levels = _build_rtree(leaf_items, fanout, min_levels)
    others = _order_nodes(root, order, rng)

    def size(nd):
        isz = 32 if nd.leaf else 24
        n = fanout if pad else len(nd.items if nd.leaf else nd.kids)
        return 4 + n * isz
    pos = base + 48
    root.offset = pos
    pos += size(root)
    for nd in others:
        nd.offset = pos
        pos += size(nd)
    out = bytearray(pos - base)
    if leaf_items:
        lo = min((x[0], x[1]) for x in leaf_items)
        hi = max((x[2], x[3]) for x in leaf_items)
        end_data = max(x[4] + x[5] for x in leaf_items)
    else:
        lo = hi = (0, 0)
        end_data = base
    struct.pack_into(bo + "IIQIIIIQII", out, 0, RTREE_MAGIC, fanout, len(leaf_items) if n_items is None else n_items,
                     lo[0], lo[1], hi[0], hi[1], end_data, ips, 0)
    nodes = []
    for nd in [root] + others:
        o = nd.offset - base
        if nd.leaf:
            struct.pack_into(bo + "BBH", out, o, 1, 0, len(nd.items))
            for i, it in enumerate(nd.items):
                struct.pack_into(bo + "IIIIQQ", out, o + 4 + 32 * i, *it)
            nodes.append((nd.offset, True, len(nd.items), size(nd)))
        else:
            struct.pack_into(bo + "BBH", out, o, 0, 0, len(nd.kids))
            for i, k in enumerate(nd.kids):
                struct.pack_into(bo + "IIIIQ", out, o + 4 + 24 * i, k.lo[0], k.lo[1], k.hi[0], k.hi[1], k.offset)
            nodes.append((nd.offset, False, len(nd.kids), size(nd)))
    return bytes(out), dict(levels=levels, nodes=nodes)


def _chrom_tree_bytes(bo, base, table, block, order, rng, pad):
    """table: [(name, id, size)] sorted by key -> (bytes, info)"""
    keys = [nm.encode("utf-8") for (nm, _, _) in table]
    key_size = max(len(k) for k in keys)
    if block < 1 or (block == 1 and len(table) > 1):
        raise EncodeError("chromosome tree block size %d cannot hold %d chromosomes" % (block, len(table)))
    level = []
    for i in range(0, len(table), block):
        nd = _Node(True, items=[(keys[j], table[j][1], table[j][2]) for j in range(i, min(i + block, len(table)))])
        nd.key = nd.items[0][0]
        level.append(nd)
    levels = 1
    while len(level) > 1:
        up = []
        for i in range(0, len(level), block):
            nd = _Node(False, kids=level[i:i + block])
            nd.key = nd.kids[0].key
            up.append(nd)
        level = up
        levels += 1
    root = level[0]
    others = _order_nodes(root, order if order != "nonleaf_last" else "level", rng)
    isz = key_size + 8

    def size(nd):
        n = block if pad else len(nd.items if nd.leaf else nd.kids)
        return 4 + n * isz
    pos = base + 32
    root.offset = pos
    pos += size(root)
    for nd in others:
        nd.offset = pos
        pos += size(nd)
    out = bytearray(pos - base)
    struct.pack_into(bo + "IIIIQQ", out, 0, CHROM_TREE_MAGIC, block, key_size, 8, len(table), 0)
    for nd in [root] + others:
        o = nd.offset - base
        if nd.leaf:
            struct.pack_into(bo + "BBH", out, o, 1, 0, len(nd.items))
            for i, (k, cid, csz) in enumerate(nd.items):
                p = o + 4 + isz * i
                out[p:p + len(k)] = k
                struct.pack_into(bo + "II", out, p + key_size, cid, csz)
        else:
            struct.pack_into(bo + "BBH", out, o, 0, 0, len(nd.kids))
            for i, kd in enumerate(nd.kids):
                p = o + 4 + isz * i
                out[p:p + len(kd.key)] = kd.key
                struct.pack_into(bo + "Q", out, p + key_size, kd.offset)
    return bytes(out), dict(levels=levels, key_size=key_size)


# ---------------------------------------------------------------------------------- the file

def encode(content, layout):
    return encode_with_model(content, layout)[0]


def encode_with_model(content, layout):
    bo = layout["byteorder"]
    kind = content["kind"]
    version = layout["version"]
    compress = layout["compress"]
    ips = layout["ips"]
    fanout = layout["rt_block"]
    order = layout["node_order"]
    pad = layout.get("pad_nodes", False)
    rng = random.Random(layout.get("order_seed", 0))
    magic = BIGWIG_MAGIC if kind == "bigwig" else BIGBED_MAGIC
    table = chrom_table(content)
    zooms = list(layout.get("zooms", []))
    if any(zooms[i] >= zooms[i + 1] for i in range(len(zooms) - 1)) or len(zooms) > 10:
        raise EncodeError("zoom reductions must be strictly increasing and at most 10")
    inflated_max = [0]

    def pack_block(raw):
        inflated_max[0] = max(inflated_max[0], len(raw))
        return zlib.compress(raw, layout.get("zlevel", 6)) if compress else raw

    # --- data blocks
    blocks = []  # (chrom id, lo, hi, bytes)
    n_items = 0
    types_present = set()
    for (nm, cid, csz) in table:
        if kind == "bigwig":
            for (typ, sec) in _sections_of(content, nm, ips):
                types_present.add(typ)
                span = sec[0][1] - sec[0][0] if typ in (2, 3) else 0
                step = (sec[1][0] - sec[0][0] if len(sec) > 1 else span) if typ == 3 else 0
                b = bytearray(struct.pack(bo + "IIIIIBBH", cid, sec[0][0], sec[-1][1], step, span, typ, 0, len(sec)))
                for (s, e, v) in sec:
                    if typ == 1:
                        b += struct.pack(bo + "IIf", s, e, v)
                    elif typ == 2:
                        b += struct.pack(bo + "If", s, v)
                    else:
                        b += struct.pack(bo + "f", v)
                blocks.append((cid, min(x[0] for x in sec), max(x[1] for x in sec), pack_block(bytes(b))))
                n_items += len(sec)
        else:
            ents = content["entries"].get(nm, [])
            for i in range(0, len(ents), ips):
                grp = ents[i:i + ips]
                b = bytearray()
                for (s, e, rest) in grp:
                    b += struct.pack(bo + "III", cid, s, e) + rest.encode("utf-8") + b"\0"
                blocks.append((cid, min(x[0] for x in grp), max(x[1] for x in grp), pack_block(bytes(b))))
                n_items += len(grp)
    dcount = len(blocks) if kind == "bigwig" else n_items
    # --- zoom blocks
    zlevels = []
    zips = layout.get("zoom_ips", ips)
    cross_chrom = bool(layout.get("zoom_cross_chrom"))
    n_cross = [0]
    for red in zooms:
        recs = zoom_records(content, red)
        zb = []
        i = 0
        while i < len(recs):
            j = i
            # UCSC packs itemsPerSlot zoom records per block straight across chromosome boundaries
            # (layout zoom_cross_chrom); bigtools itself starts a new block at every chromosome.
            while j < len(recs) and j - i < zips and (cross_chrom or recs[j][1] == recs[i][1]):
                j += 1
            grp = recs[i:j]
            b = bytearray()
            for (_, cid, s, e, valid, mn, mx, sm, sq) in grp:
                b += struct.pack(bo + "IIIIffff", cid, s, e, valid, mn, mx, sm, sq)
            hi = max((x[1], x[3]) for x in grp)
            if hi[0] != grp[0][1]:
                n_cross[0] += 1
            zb.append((grp[0][1], grp[0][2], hi[0], hi[1], pack_block(bytes(b))))
            i = j
        zlevels.append((red, recs, zb))
    # --- assemble
    out = bytearray(64 + 24 * len(zooms))
    autosql_off = 0
    if kind == "bigbed" and content.get("autosql") is not None:
        autosql_off = len(out)
        out += content["autosql"].encode("utf-8") + b"\0"
    summary_off = 0
    summ = total_summary(content)
    # a total summary is optional whatever the version says: totalSummaryOffset == 0 means "none"
    if (version >= 2 and not layout.get("no_summary")) or (version < 2 and layout.get("summary_in_v1")):
        summary_off = len(out)
        out += struct.pack(bo + "Qdddd", *summ)
    ct_order = layout.get("ct_order", "level")
    ct_info = {}

    def put_chrom_tree():
        b, info = _chrom_tree_bytes(bo, len(out), table, layout["ct_block"], ct_order, rng, pad)
        ct_info.update(info, offset=len(out))
        out.extend(b)

    if layout.get("ct_pos", "before_data") == "before_data":
        put_chrom_tree()
    data_off = len(out)
    out += struct.pack(bo + "Q", dcount)
    leaf_items = []
    for (cid, lo, hi, b) in blocks:
        leaf_items.append((cid, lo, cid, hi, len(out), len(b)))
        out += b
    if layout.get("ct_pos", "before_data") != "before_data":
        put_chrom_tree()
    index_last = order == "nonleaf_last" or layout.get("index_last", False)
    min_levels = 3 if order == "nonleaf_last" else 1
    all_nodes = []
    index_info = {}

    def put_main_index():
        b, info = _rtree_bytes(bo, len(out), leaf_items, fanout, ips, order, rng, pad, min_levels)
        index_info.update(info, offset=len(out))
        all_nodes.extend(info["nodes"])
        out.extend(b)

    if not index_last:
        put_main_index()
    zoom_heads = []
    zoom_infos = []
    for (red, recs, zb) in zlevels:
        zdata = len(out)
        if layout.get("zoom_count_word"):
            out += struct.pack(bo + "I", len(recs))
        zleaf = []
        for (cid, lo, ecid, hi, b) in zb:
            zleaf.append((cid, lo, ecid, hi, len(out), len(b)))
            out += b
        zindex = len(out)
        b, info = _rtree_bytes(bo, zindex, zleaf, fanout, zips, order if order != "nonleaf_last" else "level", rng, pad)
        all_nodes.extend(info["nodes"])
        out += b
        zoom_heads.append((red, zdata, zindex))
        zoom_infos.append(dict(levels=info["levels"], blocks=len(zb), records=len(recs)))
    if index_last:
        put_main_index()
    trailing = layout.get("trailing_magic", True) or version >= 4
    if trailing:
        out += struct.pack(bo + "I", magic)
    ubs = 0
    if compress:
        ubs = inflated_max[0] + layout.get("ubs_slack", 0)
    fc = content.get("field_count", 0) if kind == "bigbed" else 0
    dfc = content.get("defined_field_count", 0) if kind == "bigbed" else 0
    struct.pack_into(bo + "IHHQQQHHQQIQ", out, 0, magic, version, len(zooms), ct_info["offset"], data_off, index_info["offset"], fc, dfc,
                     autosql_off, summary_off, ubs, 0)
    for i, (red, zd, zi) in enumerate(zoom_heads):
        struct.pack_into(bo + "IIQQ", out, 64 + 24 * i, red, 0, zd, zi)
    data = bytes(out)
    # is the last R-tree node of the file a non-leaf node (padding included) with nothing but the trailing magic
    # (or nothing at all) after it?  A description of the layout, nothing more.
    last = max(all_nodes, key=lambda x: x[0]) if all_nodes else None
    nonleaf_tail = False
    if last is not None and not last[1]:
        nonleaf_tail = len(data) - (last[0] + last[3]) <= 4
    model = dict(
        chroms=[(nm, sz) for (nm, _, sz) in table],
        total_summary=summ if summary_off else None,
        data_count=dcount,
        zoom=dict((red, recs) for (red, recs, _) in zlevels),
        item_types=item_types(content, layout) if kind == "bigwig" else {},
        types_present=sorted(types_present),
        uncompress_buf_size=ubs,
        facts=dict(ct_levels=ct_info["levels"], rt_levels=index_info["levels"], zoom_rt_levels=[z["levels"] for z in zoom_infos],
                   n_blocks=len(blocks), zoom_blocks=[z["blocks"] for z in zoom_infos], zoom_blocks_spanning_chroms=n_cross[0], nonleaf_node_last_in_file=nonleaf_tail,
                   trailing_magic=trailing, index_last=index_last, bytes=len(data)),
    )
    return data, model


# ---------------------------------------------------------------------------------- generators

_NAME_POOL = ["chr1", "chr10", "chr11", "chr2", "chr21", "chrX", "chrY", "chrM", "chr1_alt", "chrUn_gl000220", "chrY_random", "a", "B", "Z", "b",
              "1", "2", "10", "X", "scaffold_12345_with_a_long_name", "chr", "chr1a", "CHR1", "c", "contig.7", "chr-2"]

_TOKENS = ["name1", "+", "-", ".", "0", "1000", "12.5", "x", "gene-A", "0,1,2,", "a b", "255,0,0", "f17"]


def _gen_value(rng):
    k = rng.randrange(8)
    if k == 0:
        return float(rng.randrange(-5, 12))
    if k == 1:
        return rng.randrange(-64, 64) / 8.0
    if k == 2:
        return f32(rng.uniform(-1000.0, 1000.0))
    if k == 3:
        return f32(rng.uniform(0.0, 1.0))
    if k == 4:
        return f32(10.0 ** rng.uniform(-30, 15) * rng.choice([1, -1]))
    if k == 5:
        return rng.choice([0.0, -0.0, 1.0, -1.0, 0.5])
    if k == 6:
        # any finite f32 of moderate magnitude, straight from a bit pattern
        while True:
            v = struct.unpack("<f", struct.pack("<I", rng.getrandbits(32)))[0]
            if math.isfinite(v) and abs(v) < 1e18:
                return v
    return f32(rng.gauss(0.0, 3.0))


def gen_chroms(rng, n):
    names = rng.sample(_NAME_POOL, n)
    return [(nm, rng.choice([100, 101, 127, 128, 255, 256, 1000, 4096, 5000]) if rng.random() < 0.3 else rng.randrange(100, 5001)) for nm in names]


def _gen_bw_chrom(rng, size, max_items):
    """-> (values, runs): runs of section types 1/2/3 with the constraints each type needs"""
    vals = []
    runs = []
    pos = rng.choice([0, 0, rng.randrange(0, max(1, size // 4))])
    target = rng.choice([1, 2, 3, rng.randrange(1, max_items + 1), rng.randrange(1, max_items + 1)])
    while len(vals) < target and pos < size:
        typ = rng.choice([1, 2, 3])
        n = min(rng.randrange(1, 9), target - len(vals))
        made = 0
        if typ == 1:
            for _ in range(n):
                if pos >= size:
                    break
                ln = min(rng.choice([1, 1, 2, 3, 5, 10, rng.randrange(1, 60)]), size - pos)
                if rng.random() < 0.04:
                    ln = size - pos  # ends exactly on the chromosome end
                vals.append((pos, pos + ln, _gen_value(rng)))
                made += 1
                pos += ln + rng.choice([0, 0, 1, 2, 7, rng.randrange(0, 40)])
        elif typ == 2:
            span = rng.choice([1, 1, 2, 5, rng.randrange(1, 30)])
            for _ in range(n):
                if pos + span > size:
                    break
                vals.append((pos, pos + span, _gen_value(rng)))
                made += 1
                pos += span + rng.choice([0, 0, 1, 3, rng.randrange(0, 40)])
        else:
            span = rng.choice([1, 1, 2, 5, rng.randrange(1, 30)])
            step = span + rng.choice([0, 0, 1, 5, rng.randrange(0, 20)])
            for _ in range(n):
                if pos + span > size:
                    break
                vals.append((pos, pos + span, _gen_value(rng)))
                made += 1
                pos += step
            if made:
                pos = vals[-1][1] + rng.choice([0, 0, 3, rng.randrange(0, 40)])
        if made:
            runs.append((typ, made))
        else:
            break
    return vals, runs


def _gen_rest(rng, ncols):
    return "\t".join(rng.choice(_TOKENS) for _ in range(ncols))


def _gen_bb_chrom(rng, size, max_items, ncols):
    out = []
    target = rng.choice([1, 2, 3, rng.randrange(1, max_items + 1), rng.randrange(1, max_items + 1)])
    pos = rng.choice([0, 0, rng.randrange(0, max(1, size // 4))])
    long_first = rng.random() < 0.25
    while len(out) < target and pos < size:
        k = rng.randrange(10)
        if long_first and not out:
            ln = rng.randrange(size // 3, size) if size > 3 else 1
        elif k == 0 and pos > 0:
            ln = 0  # zero-length entry (an insertion); never at (0,0)
        elif k == 1:
            ln = rng.randrange(1, max(2, size // 5))
        else:
            ln = rng.choice([1, 2, 3, 5, 10, rng.randrange(1, 50)])
        end = min(size, pos + ln)
        if end == pos and pos == 0:
            end = 1
        out.append((pos, end, _gen_rest(rng, ncols)))
        if rng.random() < 0.15:
            out.append((pos, end, out[-1][2] if rng.random() < 0.5 else _gen_rest(rng, ncols)))  # duplicate interval
        pos += rng.choice([0, 0, 1, 1, 2, 5, 9, rng.randrange(0, 60)])
    out = out[:max(1, max_items)]
    if all(e == s for (s, e, _) in out):
        s = out[-1][0]
        out.append((s, min(size, s + 1) if s < size else s, _gen_rest(rng, ncols)))
        if out[-1][1] == out[-1][0]:
            out[-1] = (s - 1, s, out[-1][2])
            out.sort(key=lambda t: t[0])
    return out


_BED_FIELDS = [("string", "name"), ("uint", "score"), ("char[1]", "strand"), ("uint", "thickStart"), ("uint", "thickEnd"), ("uint", "reserved"),
               ("int", "blockCount"), ("int[blockCount]", "blockSizes"), ("int[blockCount]", "chromStarts")]


def _gen_autosql(rng, ncols):
    lines = ['table gen%d' % rng.randrange(1000), '"generated table"', "(", 'string chrom; "chromosome"', 'uint chromStart; "start"', 'uint chromEnd; "end"']
    for i in range(ncols):
        lines.append('lstring extra%d; "column %d"' % (i, i))
    lines.append(")")
    return "\n".join(lines) + ("\n" if rng.random() < 0.5 else "")


def gen_content(rng, kind, n_chroms=None, max_items=60, empty_chrom_ok=True):
    if n_chroms is None:
        n_chroms = rng.randrange(1, 6)
    chroms = gen_chroms(rng, n_chroms)
    c = dict(kind=kind, chroms=chroms)
    per = max(1, min(max_items, rng.choice([3, 8, 20, max_items])))
    if kind == "bigwig":
        c["values"] = {}
        c["runs"] = {}
        for i, (nm, sz) in enumerate(chroms):
            if empty_chrom_ok and i > 0 and rng.random() < 0.12:
                continue  # a chromosome that is only in the chromosome tree
            v, r = _gen_bw_chrom(rng, sz, per)
            if v:
                c["values"][nm] = v
                c["runs"][nm] = r
        if not c["values"]:
            nm, sz = chroms[0]
            c["values"][nm] = [(0, 1, 1.0)]
            c["runs"][nm] = [(1, 1)]
    else:
        ncols = rng.choice([0, 0, 1, 3, 9])
        c["entries"] = {}
        for i, (nm, sz) in enumerate(chroms):
            if empty_chrom_ok and i > 0 and rng.random() < 0.12:
                continue
            c["entries"][nm] = _gen_bb_chrom(rng, sz, per, ncols)
        c["field_count"] = 3 + ncols
        c["defined_field_count"] = rng.choice([3, 3 + ncols, rng.randrange(3, 4 + ncols)])
        c["autosql"] = _gen_autosql(rng, ncols) if rng.random() < 0.6 else None
    return c


def gen_layout(rng, content, node_order=None, version=None, byteorder=None, compress=None, ct_block=None, rt_block=None):
    n_chroms = len(content["chroms"])
    if ct_block is None:
        ct_block = rng.choice([1, 2, 3, 256])
    if ct_block == 1 and n_chroms > 1:
        ct_block = rng.choice([2, 3, 256])
    version = version if version is not None else rng.choice([1, 2, 3, 4])
    nz = rng.choice([0, 0, 1, 2, 3])
    zooms = []
    red = rng.choice([1, 2, 3, 5, 10, 16, 40])
    for _ in range(nz):
        zooms.append(red)
        red = red * rng.choice([2, 3, 4, 10]) + rng.choice([0, 0, 1])
    return dict(
        byteorder=byteorder if byteorder is not None else rng.choice(["<", ">"]),
        compress=compress if compress is not None else rng.random() < 0.5,
        zlevel=rng.choice([0, 1, 6, 9]),
        version=version,
        ct_block=ct_block,
        ct_order=rng.choice(["level", "level", "reverse_level", "children_first", "shuffled"]),
        ct_pos=rng.choice(["before_data", "before_data", "after_data"]),
        rt_block=rt_block if rt_block is not None else rng.choice([2, 3, 5, 256]),
        ips=rng.choice([1, 2, 3, 5, 16]),
        node_order=node_order if node_order is not None else rng.choice(NODE_ORDERS),
        order_seed=rng.getrandbits(32),
        pad_nodes=rng.random() < 0.15,
        zooms=zooms,
        zoom_ips=rng.choice([1, 2, 3, 8]),
        zoom_cross_chrom=rng.random() < 0.5,
        no_summary=rng.random() < 0.15,
        zoom_count_word=rng.random() < 0.5,
        trailing_magic=True if version >= 2 else rng.random() < 0.5,
        ubs_slack=rng.choice([0, 0, 1, 100, 32768]),
        index_last=rng.random() < 0.1,
    )


# ---------------------------------------------------------------------------------- encoder/decoder cross-check

def cross_check(content, layout, data, model):
    """decode(encode(x)) must have no problems and identical content. Returns a list of disagreement strings."""
    from . import decode as D
    d = D.decode(data)
    # the decoder is strict about what *bigtools* writes (a version-4 file has a total summary); a foreign file may
    # legitimately leave it out, which is what layout no_summary asks for
    bad = ["%s:%s %s" % p for p in d.problems if not (layout.get("no_summary") and p[0] == "total_summary_missing")]
    bad += ["stats %s:%s %s" % p for p in D.recompute_stats(d)]
    if d.kind != content["kind"]:
        return bad + ["kind %r" % d.kind]
    table = chrom_table(content)
    if d.chroms != table:
        bad.append("chromosome table %r != %r" % (d.chroms, table))
    if d.byteorder != layout["byteorder"] or d.version != layout["version"]:
        bad.append("byte order / version")
    if bool(d.uncompress_buf_size) != bool(layout["compress"]):
        bad.append("compression flag")
    ids = dict((nm, cid) for (nm, cid, _) in table)
    if content["kind"] == "bigwig":
        for nm, cid in ids.items():
            want = [(s, e, f32_bits(v)) for (s, e, v) in content["values"].get(nm, [])]
            got = [(s, e, bits) for (s, e, _, bits) in d.values.get(cid, [])]
            if got != want:
                bad.append("values of %s differ" % nm)
        want_secs = [(ids[nm], typ, len(sec)) for (nm, _, _) in table for (typ, sec) in _sections_of(content, nm, layout["ips"])]
        if d.sections != want_secs:
            bad.append("section types/sizes differ")
    else:
        for nm, cid in ids.items():
            if d.entries.get(cid, []) != [tuple(x) for x in content["entries"].get(nm, [])]:
                bad.append("entries of %s differ" % nm)
        if d.autosql != content.get("autosql"):
            bad.append("autosql differs")
        if (d.field_count, d.defined_field_count) != (content["field_count"], content["defined_field_count"]):
            bad.append("field counts differ")
    if d.data_count != model["data_count"]:
        bad.append("dataCount %r != %r" % (d.data_count, model["data_count"]))
    ts = model["total_summary"]
    if ts is None:
        if d.total_summary is not None:
            bad.append("unexpected total summary")
    else:
        got = d.total_summary and (d.total_summary["bases"], d.total_summary["min"], d.total_summary["max"], d.total_summary["sum"], d.total_summary["sumsq"])
        if got is None or [got[0]] + [f64_bits(x) for x in got[1:]] != [ts[0]] + [f64_bits(x) for x in ts[1:]]:
            bad.append("total summary %r != %r" % (got, ts))
    if [z["reduction"] for z in d.zooms] != list(layout["zooms"]):
        bad.append("zoom reductions differ")
    else:
        for z in d.zooms:
            want = [(cid, s, e, valid, f32_bits(mn), f32_bits(mx), f32_bits(sm), f32_bits(sq)) for (_, cid, s, e, valid, mn, mx, sm, sq) in model["zoom"][z["reduction"]]]
            got = [(r["chrom"], r["start"], r["end"], r["valid"]) + r["bits"] for r in z["records"]]
            if got != want:
                bad.append("zoom records of reduction %d differ" % z["reduction"])
            if z["count_word"] is not None and z["count_word"] != bool(layout.get("zoom_count_word")):
                bad.append("zoom count word presence")
    if d.trailing_magic != model["facts"]["trailing_magic"]:
        bad.append("trailing magic presence")
    if d.chrom_tree.get("levels") != model["facts"]["ct_levels"] or (d.main_index or {}).get("depth") != model["facts"]["rt_levels"]:
        bad.append("tree depths differ: %r %r vs %r" % (d.chrom_tree.get("levels"), (d.main_index or {}).get("depth"), model["facts"]))
    if not d.chrom_tree.get("sorted") or not d.chrom_tree.get("searchable"):
        bad.append("chromosome tree not sorted/searchable")
    return bad
