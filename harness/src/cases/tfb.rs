//! C12: the staging buffer (TempFileBuffer) delivers every byte once, in order.
//! Layer 1 (`c12x`): exhaustive call-level interleavings on one thread.
//! Layer 2 (`c12t`): threaded stress with seeded delays at the hook points, trace-derived
//! interleaving signatures.
use crate::hooks;
use crate::proto::{Ctx, Outcome, Tier};
use crate::sink::MemSink;
use crate::util::{Fnv, Rng, J};
use crate::wr;
use bigtools::utils::tempfilebuffer::{TempFileBuffer, TempFileBufferWriter};
use std::io::{BufWriter, Write};

pub fn payload_byte(i: u64) -> u8 {
    let x = i.wrapping_mul(0x9E37_79B9_7F4A_7C15);
    (x >> 56) as u8 ^ (i as u8)
}
fn payload(from: u64, len: usize) -> Vec<u8> {
    (0..len as u64).map(|i| payload_byte(from + i)).collect()
}

/// Describe how `got` differs from the expected stream of `total` bytes.
fn diff_stream(got: &[u8], total: u64) -> Option<(String, J)> {
    let exp_len = total as usize;
    let first_bad = got.iter().enumerate().position(|(i, b)| i >= exp_len || *b != payload_byte(i as u64));
    if got.len() == exp_len && first_bad.is_none() {
        return None;
    }
    let class = if got.len() < exp_len && first_bad.is_none() {
        "bytes_missing_at_end"
    } else if got.len() < exp_len {
        "bytes_missing_or_reordered"
    } else if got.len() > exp_len {
        "bytes_duplicated_or_extra"
    } else {
        "bytes_reordered_or_corrupted"
    };
    Some((class.to_string(), J::obj().set("got_len", got.len().into()).set("expected_len", exp_len.into()).set("first_bad_offset", first_bad.map(|x| J::U(x as u64)).unwrap_or(J::Null))))
}

const S6: &[usize] = &[0, 1, 3, 4096, 8192, 70_000];
const S4: &[usize] = &[0, 1, 8192, 70_000];
const S3: &[usize] = &[1, 4096, 70_000];

/// The enumerated producer histories (vectors of write sizes).
pub fn histories(tier: Tier) -> Vec<Vec<usize>> {
    let mut v: Vec<Vec<usize>> = vec![vec![]];
    fn prod(sizes: &[usize], k: usize, out: &mut Vec<Vec<usize>>) {
        let mut idx = vec![0usize; k];
        loop {
            out.push(idx.iter().map(|i| sizes[*i]).collect());
            let mut p = 0;
            loop {
                if p == k {
                    return;
                }
                idx[p] += 1;
                if idx[p] < sizes.len() {
                    break;
                }
                idx[p] = 0;
                p += 1;
            }
        }
    }
    for k in 1..=3 {
        prod(S6, k, &mut v);
    }
    if tier == Tier::Thorough {
        prod(S6, 4, &mut v);
        prod(S4, 5, &mut v);
        prod(&[1, 70_000], 6, &mut v);
    } else {
        prod(S4, 4, &mut v);
        prod(S3, 5, &mut v);
    }
    // staged amounts beyond 1 MiB (whole multiples and not), so that any chunked copy of the staged bytes
    // has to go round more than once and ends on a partial chunk
    for big in [vec![1_048_676usize], vec![1_048_576], vec![600_000, 600_000], vec![2_200_000], vec![3, 1_100_000, 5]] {
        v.push(big);
    }
    v
}

enum Dest {
    Plain(MemSink),
    Buffered(BufWriter<MemSink>),
    /// a destination that accepts at most `.1` bytes per `write` call (legal for io::Write:
    /// pipes, sockets, throttled writers, and write(2) itself above ~2 GiB behave like this)
    Short(MemSink, usize),
    /// the same, and the call after every short write fails once with ErrorKind::Interrupted (a signal arriving
    /// between two write(2) calls): callers must retry that call and must not re-send what was already accepted
    ShortIntr(MemSink, usize, bool),
}
impl Write for Dest {
    fn write(&mut self, b: &[u8]) -> std::io::Result<usize> {
        match self {
            Dest::Plain(m) => m.write(b),
            Dest::Buffered(m) => m.write(b),
            Dest::Short(m, n) => {
                let k = b.len().min(*n);
                m.write(&b[..k])
            }
            Dest::ShortIntr(m, n, pending) => {
                if *pending {
                    *pending = false;
                    return Err(std::io::Error::new(std::io::ErrorKind::Interrupted, "EINTR"));
                }
                let k = b.len().min(*n);
                if k < b.len() {
                    *pending = true;
                }
                m.write(&b[..k])
            }
        }
    }
    fn flush(&mut self) -> std::io::Result<()> {
        match self {
            Dest::Plain(m) => m.flush(),
            Dest::Buffered(m) => m.flush(),
            Dest::Short(m, _) => m.flush(),
            Dest::ShortIntr(m, _, _) => m.flush(),
        }
    }
}

#[derive(Clone, Copy, PartialEq)]
enum DestKind {
    Plain,
    Buffered,
    Short,
    ShortIntr,
}
impl DestKind {
    fn make(self, sink: &MemSink) -> Dest {
        match self {
            DestKind::Plain => Dest::Plain(sink.clone()),
            DestKind::Buffered => Dest::Buffered(BufWriter::new(sink.clone())),
            DestKind::Short => Dest::Short(sink.clone(), 700),
            DestKind::ShortIntr => Dest::ShortIntr(sink.clone(), 700, false),
        }
    }
    fn name(self) -> &'static str {
        match self {
            DestKind::Plain => "plain_dest",
            DestKind::Buffered => "bufwriter_dest",
            DestKind::Short => "short_writing_dest",
            DestKind::ShortIntr => "short_writing_interrupting_dest",
        }
    }
}

pub fn c12x(ctx: &Ctx, begin: &mut dyn FnMut(J)) -> Outcome {
    let all = histories(ctx.tier);
    let mut out = Outcome::new();
    let Some(sizes) = all.get(ctx.case as usize).cloned() else {
        begin(J::Null);
        out.inconclusive = Some("blocked_by:none beyond enumeration".into());
        return out;
    };
    begin(J::obj().set("writes", J::A(sizes.iter().map(|s| J::U(*s as u64)).collect())));
    let k = sizes.len();
    let total: u64 = sizes.iter().map(|s| *s as u64).sum();
    let mut f = Fnv::new();
    for s in &sizes {
        f.u64(*s as u64);
    }
    out.hash = f.hex();
    out.nontrivial = k >= 1;
    let mut programs = 0u64;
    for inmemory in [true, false] {
        for dk in [DestKind::Plain, DestKind::Buffered, DestKind::Short, DestKind::ShortIntr] {
            // (A) switch after p producer steps (steps = k writes + drop), then await
            for p in 0..=k + 1 {
                programs += 1;
                let site_base = format!("{}:{}", if inmemory { "inmemory" } else { "tempfile" }, dk.name());
                let r = wr::guard(|| -> Result<(), (String, J)> {
                    let sink = MemSink::new();
                    let (mut buf, writer): (TempFileBuffer<Dest>, TempFileBufferWriter<Dest>) = TempFileBuffer::new(inmemory);
                    let mut writer = Some(writer);
                    let mut written = 0u64;
                    let mut switched = false;
                    for step in 0..=k + 1 {
                        if step == p {
                            buf.switch(dk.make(&sink));
                            switched = true;
                        }
                        // readiness poll at every position
                        let ready = buf.is_real_file_ready();
                        let dropped = writer.is_none();
                        if ready != dropped {
                            return Err(("readiness_wrong".into(), J::obj().set("ready", ready.into()).set("producer_dropped", dropped.into()).set("step", step.into())));
                        }
                        if step < k {
                            let data = payload(written, sizes[step]);
                            writer.as_mut().unwrap().write_all(&data).map_err(|e| ("write_error".to_string(), J::s(e.to_string())))?;
                            written += sizes[step] as u64;
                        } else if step == k {
                            drop(writer.take());
                        }
                    }
                    debug_assert!(switched);
                    let mut d = buf.await_real_file();
                    d.flush().map_err(|e| ("flush_error".to_string(), J::s(e.to_string())))?;
                    drop(d);
                    match diff_stream(&sink.bytes(), total) {
                        None => Ok(()),
                        Some((c, d)) => Err((c, d)),
                    }
                });
                let where_ = if p == 0 { "switch_before_first_write" } else if p <= k { "switch_between_writes" } else { "switch_after_drop" };
                match r {
                    Ok(Ok(())) => {}
                    Ok(Err((class, d))) => out.viol(&class, format!("{}:{}", site_base, where_), d.set("switch_after_steps", p.into())),
                    Err(pn) => out.viol("panic", format!("{}:{}:{}", site_base, where_, wr::panic_site(&pn)), J::A(pn.into_iter().map(J::S).collect())),
                }
            }
            // (B) never switched: len() then expect_closed_write
            programs += 1;
            let site_base = format!("{}:{}:no_switch", if inmemory { "inmemory" } else { "tempfile" }, dk.name());
            let r = wr::guard(|| -> Result<(), (String, J)> {
                let sink = MemSink::new();
                let (buf, mut writer): (TempFileBuffer<Dest>, TempFileBufferWriter<Dest>) = TempFileBuffer::new(inmemory);
                let mut written = 0u64;
                for s in &sizes {
                    writer.write_all(&payload(written, *s)).map_err(|e| ("write_error".to_string(), J::s(e.to_string())))?;
                    written += *s as u64;
                }
                if buf.is_real_file_ready() {
                    return Err(("readiness_wrong".into(), J::s("ready before the producer was dropped")));
                }
                drop(writer);
                if !buf.is_real_file_ready() {
                    return Err(("readiness_wrong".into(), J::s("not ready after the producer was dropped")));
                }
                let l = buf.len().map_err(|e| ("len_error".to_string(), J::s(e.to_string())))?;
                if l != total {
                    return Err(("len_wrong".into(), J::obj().set("len", l.into()).set("written", total.into())));
                }
                let mut d = dk.make(&sink);
                buf.expect_closed_write(&mut d).map_err(|e| ("copy_error".to_string(), J::s(e.to_string())))?;
                d.flush().map_err(|e| ("flush_error".to_string(), J::s(e.to_string())))?;
                drop(d);
                match diff_stream(&sink.bytes(), total) {
                    None => Ok(()),
                    Some((c, d)) => Err((c, d)),
                }
            });
            match r {
                Ok(Ok(())) => {}
                Ok(Err((class, d))) => out.viol(&class, site_base, d),
                Err(pn) => out.viol("panic", format!("{}:{}", site_base, wr::panic_site(&pn)), J::A(pn.into_iter().map(J::S).collect())),
            }
        }
    }
    out.count("consumer_programs", programs);
    out.tag(format!("k={}", k));
    out
}

/// Interleaving signature of one threaded run from the trace.
fn signature(tr: &[hooks::Ev]) -> (String, String) {
    let mut s = String::new();
    let mut u_run = 0usize;
    let flush = |s: &mut String, u_run: &mut usize| {
        if *u_run > 0 {
            s.push_str(match *u_run {
                1 => "u",
                2..=3 => "u+",
                _ => "u*",
            });
            *u_run = 0;
        }
    };
    let mut handoff = "never_took_file_while_writing";
    for e in tr {
        match e.id {
            "tfb.update.post_swap" => {
                if e.b % 2 == 1 {
                    flush(&mut s, &mut u_run);
                    s.push('U');
                    handoff = match e.b / 2 {
                        0 => "file_arrived_before_first_write",
                        1 => "mid_stream_from_memory",
                        2 => "mid_stream_from_temp_file",
                        _ => "?",
                    };
                } else {
                    u_run += 1;
                }
            }
            "tfb.switch" => {
                flush(&mut s, &mut u_run);
                s.push('s');
            }
            "tfb.drop.closed" => {
                flush(&mut s, &mut u_run);
                s.push('d');
            }
            "tfb.await.pre_wait" => {
                flush(&mut s, &mut u_run);
                s.push('w');
            }
            "tfb.await.returned" => {
                flush(&mut s, &mut u_run);
                s.push('r');
            }
            _ => {}
        }
    }
    flush(&mut s, &mut u_run);
    if handoff == "never_took_file_while_writing" && s.contains('s') {
        handoff = "after_the_writer_closed";
    }
    (s, handoff.to_string())
}

/// Race mode: many short trials in which the producer's last write / Drop and the consumer's
/// switch / await are released from a spin barrier with small random spin offsets, so that the
/// Drop sweeps across every instant of the consumer's wait sequence. No hook delays, no trace.
fn c12_race(ctx: &Ctx, r: &mut Rng, begin: &mut dyn FnMut(J)) -> Outcome {
    use std::sync::atomic::{AtomicUsize, Ordering};
    use std::sync::Arc;
    let trials = 400usize;
    begin(J::obj().set("mode", "race".into()).set("trials", trials.into()));
    let mut out = Outcome::new();
    out.hash = format!("race:{}", ctx.case);
    out.nontrivial = true;
    out.tag("race_mode");
    hooks::set_policy(0, 0, false);
    for t in 0..trials {
        let inmemory = t % 4 != 3;
        let nwrites = (t % 3) as usize;
        let sizes: Vec<usize> = (0..nwrites).map(|i| [1usize, 100, 9000][(t + i) % 3]).collect();
        let total: u64 = sizes.iter().map(|s| *s as u64).sum();
        let switch_first = t % 2 == 0;
        let (pspin, cspin) = (r.below(400) as u32, r.below(400) as u32);
        let sink = MemSink::new();
        let sink2 = sink.clone();
        let (mut buf, mut writer): (TempFileBuffer<Dest>, TempFileBufferWriter<Dest>) = TempFileBuffer::new(inmemory);
        let gate = Arc::new(AtomicUsize::new(0));
        let (g1, g2) = (gate.clone(), gate.clone());
        let (ptx, prx) = std::sync::mpsc::channel::<bool>();
        let (ctx_, crx) = std::sync::mpsc::channel::<bool>();
        let sizes2 = sizes.clone();
        let producer = std::thread::spawn(move || {
            g1.fetch_add(1, Ordering::SeqCst);
            while g1.load(Ordering::SeqCst) < 2 {
                std::hint::spin_loop();
            }
            let mut written = 0u64;
            let mut ok = true;
            for s in sizes2 {
                ok &= writer.write_all(&payload(written, s)).is_ok();
                written += s as u64;
            }
            for _ in 0..pspin {
                std::hint::spin_loop();
            }
            drop(writer);
            let _ = ptx.send(ok);
        });
        let consumer = std::thread::spawn(move || {
            let dest = Dest::Plain(sink2);
            if switch_first {
                buf.switch(dest);
                g2.fetch_add(1, Ordering::SeqCst);
                while g2.load(Ordering::SeqCst) < 2 {
                    std::hint::spin_loop();
                }
                for _ in 0..cspin {
                    std::hint::spin_loop();
                }
                let mut d = buf.await_real_file();
                let _ = d.flush();
            } else {
                g2.fetch_add(1, Ordering::SeqCst);
                while g2.load(Ordering::SeqCst) < 2 {
                    std::hint::spin_loop();
                }
                for _ in 0..cspin {
                    std::hint::spin_loop();
                }
                buf.switch(dest);
                let mut d = buf.await_real_file();
                let _ = d.flush();
            }
            let _ = ctx_.send(true);
        });
        let pok = prx.recv_timeout(std::time::Duration::from_secs(30)).unwrap_or(false);
        let _ = producer.join();
        if !pok {
            out.viol("producer_failed_in_race_mode", "", J::U(t as u64));
            break;
        }
        match crx.recv_timeout(std::time::Duration::from_secs(4)) {
            Ok(_) => {
                let _ = consumer.join();
                if let Some((c, d)) = diff_stream(&sink.bytes(), total) {
                    out.viol(&c, format!("{}:race_mode", if inmemory { "inmemory" } else { "tempfile" }), d.set("trial", t.into()));
                    break;
                }
            }
            Err(_) => {
                out.viol(
                    "wait_did_not_return_after_producer_finished",
                    format!("{}:await_real_file", if inmemory { "inmemory" } else { "tempfile" }),
                    J::obj().set("mode", "race".into()).set("trial", t.into()).set("waited_s", 4u64.into()),
                );
                crate::proto::emit_end(ctx.case, &out);
                std::process::exit(78);
            }
        }
        out.count("race_trials", 1);
    }
    out
}

pub fn c12t(ctx: &Ctx, begin: &mut dyn FnMut(J)) -> Outcome {
    let mut r = Rng::derive(ctx.seed, 0xC12, ctx.case);
    if ctx.case % 6 == 5 && std::env::var_os("BVH_SANITIZER_MODE").is_none() {
        return c12_race(ctx, &mut r, begin);
    }
    let inmemory = r.chance(1, 2);
    let dk = *r.pick(&[DestKind::Plain, DestKind::Buffered, DestKind::Short, DestKind::ShortIntr]);
    let nwrites = *r.pick(&[0usize, 1, 2, 5, 20, 60]);
    let sizes: Vec<usize> = (0..nwrites).map(|_| *r.pick(&[0usize, 1, 7, 100, 4096, 8192, 20_000])).collect();
    let policy = r.below(5) as usize;
    let consumer_delay_us = *r.pick(&[0u64, 0, 50, 300, 2000]);
    let producer_gap_us = *r.pick(&[0u64, 0, 10, 100]);
    let use_len_path = r.chance(1, 6);
    begin(
        J::obj()
            .set("inmemory", inmemory.into())
            .set("dest", dk.name().into())
            .set("writes", J::A(sizes.iter().map(|s| J::U(*s as u64)).collect()))
            .set("delay_policy", policy.into())
            .set("consumer_delay_us", consumer_delay_us.into())
            .set("producer_gap_us", producer_gap_us.into())
            .set("no_switch_len_then_copy", use_len_path.into()),
    );
    let mut out = Outcome::new();
    let total: u64 = sizes.iter().map(|s| *s as u64).sum();
    let sanitizer_mode = std::env::var_os("BVH_SANITIZER_MODE").is_some();
    hooks::set_policy(policy, ctx.seed ^ ctx.case.wrapping_mul(977), !sanitizer_mode);
    let _ = hooks::take_trace();
    let sink = MemSink::new();
    // The consumer runs on its own thread so that "await returns once the producer is done" can be
    // judged as bounded progress: after the producer thread has been joined (its Drop completed),
    // the consumer gets 10 s (it normally needs microseconds) before the run is declared stuck.
    let sink2 = sink.clone();
    let sizes2 = sizes.clone();
    let (tx, rx) = std::sync::mpsc::channel::<Result<(), (String, J)>>();
    let (ptx, prx) = std::sync::mpsc::channel::<Result<(), String>>();
    let (mut buf, mut writer): (TempFileBuffer<Dest>, TempFileBufferWriter<Dest>) = TempFileBuffer::new(inmemory);
    let producer = std::thread::spawn(move || {
        let r = std::panic::catch_unwind(std::panic::AssertUnwindSafe(|| -> Result<(), String> {
            let mut written = 0u64;
            for s in sizes2 {
                writer.write_all(&payload(written, s)).map_err(|e| e.to_string())?;
                written += s as u64;
                if producer_gap_us > 0 {
                    std::thread::sleep(std::time::Duration::from_micros(producer_gap_us));
                }
            }
            drop(writer);
            Ok(())
        }));
        let _ = ptx.send(r.unwrap_or_else(|_| Err("producer panicked".to_string())));
    });
    let consumer = std::thread::spawn(move || {
        let r = std::panic::catch_unwind(std::panic::AssertUnwindSafe(|| -> Result<(), (String, J)> {
            if consumer_delay_us > 0 {
                std::thread::sleep(std::time::Duration::from_micros(consumer_delay_us));
            }
            let dest = dk.make(&sink2);
            if use_len_path {
                let l = buf.len().map_err(|e| ("len_error".to_string(), J::s(e.to_string())))?;
                if l != total {
                    return Err(("len_wrong".into(), J::obj().set("len", l.into()).set("written", total.into())));
                }
                let mut dest = dest;
                buf.expect_closed_write(&mut dest).map_err(|e| ("copy_error".to_string(), J::s(e.to_string())))?;
                dest.flush().map_err(|e| ("flush_error".to_string(), J::s(e.to_string())))?;
            } else {
                buf.switch(dest);
                let _ = buf.is_real_file_ready();
                let mut d = buf.await_real_file();
                d.flush().map_err(|e| ("flush_error".to_string(), J::s(e.to_string())))?;
            }
            Ok(())
        }));
        let _ = tx.send(r.unwrap_or_else(|_| Err(("consumer_panicked".to_string(), J::A(wr::take_panics().into_iter().map(J::S).collect())))));
    });
    let _ = wr::take_panics();
    // producer first: it never blocks on the consumer
    let pres = prx.recv_timeout(std::time::Duration::from_secs(60));
    let _ = producer.join();
    let res: Result<Result<(), (String, J)>, Vec<String>> = match pres {
        Err(_) => Ok(Err(("producer_did_not_finish".into(), J::Null))),
        Ok(Err(e)) => Ok(Err(("write_error".into(), J::s(e)))),
        Ok(Ok(())) => match rx.recv_timeout(std::time::Duration::from_secs(10)) {
            Ok(Ok(())) => {
                let _ = consumer.join();
                Ok(match diff_stream(&sink.bytes(), total) {
                    None => Ok(()),
                    Some((c, d)) => Err((c, d)),
                })
            }
            Ok(Err(e)) => {
                let _ = consumer.join();
                Ok(Err(e))
            }
            Err(_) => {
                // definite verdict: the producer's Drop has completed (its thread was joined) and the
                // waiting call still has not returned. The stuck thread cannot be reclaimed: report and
                // leave the process (exit code 78 = "deliberate exit after a verdict").
                hooks::set_policy(0, 0, false);
                let tr = hooks::take_trace();
                let (sig, handoff) = signature(&tr);
                let mut out = Outcome::new();
                out.hash = format!("{}|{}|{}", sig, inmemory, handoff);
                out.nontrivial = true;
                out.viol(
                    "wait_did_not_return_after_producer_finished",
                    format!("{}:{}", if inmemory { "inmemory" } else { "tempfile" }, if use_len_path { "len_then_copy" } else { "await_real_file" }),
                    J::obj().set("interleaving", J::s(sig)).set("waited_s", 10u64.into()),
                );
                crate::proto::emit_end(ctx.case, &out);
                std::process::exit(78);
            }
        },
    };
    hooks::set_policy(0, 0, false);
    let tr = hooks::take_trace();
    let (sig, handoff) = signature(&tr);
    let site_base = format!("{}:{}:{}", if inmemory { "inmemory" } else { "tempfile" }, dk.name(), handoff);
    match res {
        Ok(Ok(())) => {}
        Ok(Err((class, d))) => out.viol(&class, site_base.clone(), d.set("interleaving", J::s(sig.clone()))),
        Err(pn) => out.viol("panic", format!("{}:{}", site_base, wr::panic_site(&pn)), J::A(pn.into_iter().map(J::S).collect())),
    }
    // ordering safety on the trace: await never returns before the drop was published
    let pos = |id: &str| tr.iter().position(|e| e.id == id);
    if let (Some(r_), Some(d_)) = (pos("tfb.await.returned"), pos("tfb.drop.pre_lock")) {
        if r_ < d_ {
            out.viol("await_returned_before_producer_drop", site_base.clone(), J::s(sig.clone()));
        }
    }
    out.hash = format!("{}|{}|{}", sig, inmemory, handoff);
    out.nontrivial = nwrites >= 1 && !use_len_path;
    out.tag(format!("handoff:{}", handoff));
    out.tag(format!("policy:{}", policy));
    out.count("trace_events", tr.len() as u64);
    out
}
