"""C15 (tool part) -- bigwigmerge, driven through the built binaries.

One case: k in 1..5 bigWigs written by the bedgraphtobigwig binary from generated value streams on
chromosomes <= 260000 bases (values starting at base 0; values crossing the 50000-base work-window
boundaries; a value spanning three windows; cancelling +v/-v across inputs; explicit 0.0; inputs of very
different length; chromosomes missing from some inputs; gaps > 50000), one (clip, adjust, threshold)
setting, one command-line spelling, one output name.  Every case performs two merges of the same inputs
and settings, one to a bedGraph and one to a bigWig (read back with bigwigtobedgraph); one of the two uses
the output name / --output-type spelling drawn for the case, the other `--output-type=...`.

Oracle, per base (evaluated on the elementary segments between all interval ends, so it is exact per base):
  sigma = f32(sum in f64, command-line order, of the inputs' stored f32 values at that base)
  v     = f32(min(clip, sigma) + adjust);  the base is present iff v > threshold, with value v
  * bases where no input has data must be absent;
  * bases with data whose sum is 0 must be absent when adjust is not used and are a don't-care when it is;
  * base 0 of every chromosome is a base like any other;
  * output sorted, positive-length, non-overlapping, inside the chromosome;
  * bedGraph output and bigWig output are the same function;
  * an output name the tool documents (.bw, .bigWig, .bedGraph) produces the output.
Values: exact for the dyadic value class (multiples of 1/8 in [-1, 3]); for the float class a tolerance of
k ulp (k = inputs covering the base) and presence is a don't-care within that tolerance of the threshold / of 0.

`blocked`: whether the bigWig *writer* copes with an empty merged stream (it used to hang, then to panic) is
C13's business: that merge runs with a 5 s budget and a hang / panic / error exit there is tagged and, if the
bigWig was the case's primary output, the case is counted as blocked by C13.  If it succeeds the (empty) bigWig is
checked like any other.
"""
import os
import random

import clitext as ct
import props
import pyleg

KIND = "c15tool"
N_CASES = {"quick": 200, "thorough": 6000}  # two merges per case => ~120 / ~1500 merges
W = 50000
CHROMS = ["chr1", "chr2", "chrX", "a", "chr10"]
SIZES = [1000, 50000, 50001, 60000, 100000, 100003, 150007, 260000]


# ------------------------------------------------------------ generators --
def _value(rng, vclass):
    if vclass == "dyadic":
        if rng.random() < 0.1:
            return 0.0
        return rng.randint(-8, 24) / 8.0
    if rng.random() < 0.05:
        return 0.0
    return ct.f32(rng.uniform(-300, 1000))


def gen_stream(rng, size, density, vclass, seeds):
    """seeds: intervals with fixed values (cancelling partners). Returns sorted disjoint [(s, e, v)]."""
    cand = list(seeds)
    feats = set()
    if rng.random() < 0.3:
        cand.append((0, min(size, rng.choice([1, 10, 10, rng.randint(1, 3000)])), None))
        feats.add("value_at_base_0")
    nb = (size - 1) // W
    for j in range(1, nb + 1):
        if rng.random() < 0.6:
            d1 = rng.choice([0, 1, 2, 5, 40])
            d2 = rng.choice([0, 1, 2, 5, 40])
            s, e = W * j - d1, min(size, W * j + d2)
            if e <= s:
                e = min(size, s + 1)
            cand.append((s, e, None))
            feats.add("window_boundary")
    if size > 2 * W + 10 and rng.random() < 0.35:
        j = rng.randint(0, (size - 2 * W - 2) // W)
        s = W * j + rng.randint(1, W - 1)
        e = min(size, W * (j + 2) + rng.randint(1, 100))
        cand.append((s, e, None))
        feats.add("spans_three_windows")
    for _ in range(density):
        s = rng.randrange(size)
        e = min(size, s + rng.choice([1, 1, 5, 50, 500, 5000]))
        cand.append((s, e, None))
    cand.sort(key=lambda x: (x[0], x[1]))
    out = []
    prev = 0
    for (s, e, v) in cand:
        s = max(s, prev)
        if s >= e:
            continue
        if v is None:
            v = _value(rng, vclass)
            if out and out[-1][1] == s and rng.random() < 0.15:
                v = out[-1][2]
        out.append((s, e, v))
        prev = e
    if len(out) >= 2 and any(out[i + 1][0] - out[i][1] > W for i in range(len(out) - 1)):
        feats.add("gap_over_50000")
    return out, feats


def gen_case(rng, tier):
    k = rng.randint(1, 5)
    nchrom = rng.randint(1, 3)
    names = sorted(rng.sample(CHROMS, nchrom))
    sizes = {n: rng.choice(SIZES) for n in names}
    vclass = "dyadic" if rng.random() < 0.6 else "float"
    inputs = []
    feats = set()
    for i in range(k):
        density = rng.choice([0, 1, 3, 10, 60] if tier == "quick" else [0, 1, 3, 10, 60, 300])
        data = {}
        for n in names:
            if k > 1 and rng.random() < 0.25:
                feats.add("chrom_missing_from_an_input")
                continue
            seeds = []
            if i > 0 and n in inputs[0] and rng.random() < 0.45:
                for (s, e, v) in inputs[0][n]:
                    if rng.random() < 0.5:
                        d = rng.choice([0, 0, 1, 3])
                        if e - s > 2 * d:
                            seeds.append((s + d, e - d, -v))
                if seeds:
                    feats.add("cancelling_values")
            ivs, f = gen_stream(rng, sizes[n], density, vclass, seeds)
            feats |= f
            if ivs:
                data[n] = ivs
        if not data:
            n = rng.choice(names)
            data[n] = [(5, 15, 1.0)]
        if any(v == 0.0 for ivs in data.values() for (_, _, v) in ivs):
            feats.add("explicit_zero_value")
        inputs.append(data)
    lens = [sum(len(v) for v in d.values()) for d in inputs]
    if len(lens) > 1 and max(lens) >= 10 * max(1, min(lens)):
        feats.add("inputs_of_very_different_length")
    # settings
    dy = vclass == "dyadic"
    threshold = rng.choice([None, None, None, 0.0, 0.5, -1.0, 2.0])
    adjust = rng.choice([None, None, None, 0.25, -1.0, 3.0])
    clip = rng.choice([None, None, None, 1.0, 2.5, 0.125, -0.5])
    if not dy and rng.random() < 0.5:
        threshold = rng.choice([None, ct.f32(rng.uniform(-500, 500))])
        clip = rng.choice([None, ct.f32(rng.uniform(-100, 900))])
        adjust = rng.choice([None, ct.f32(rng.uniform(-100, 100))])
    name, otype = rng.choice([("out.bw", None), ("out.bigWig", None), ("out.bedGraph", None), ("out.bw", None), ("out.bigWig", None), ("out.bedGraph", None),
                              ("out.txt", "bigwig"), ("out.txt", "bedgraph"), ("out.dat", "BigWig"), ("out.dat", "BEDGRAPH"), ("out.bedGraph", "bedgraph"), ("out.bigWig", "bigwig")])
    primary_type = (otype.lower() if otype else ("bedgraph" if name.endswith(".bedGraph") else "bigwig"))
    syntax = rng.choice(["-b", "-b", "-l", "mixed_-b_-l", "ucsc", "ucsc", "ucsc_inList"]) if k > 1 else rng.choice(["-b", "-l", "ucsc"])
    o = dict(k=k, threshold=threshold, adjust=adjust, clip=clip, name=name, output_type=otype, primary_type=primary_type, syntax=syntax,
             flag_style=rng.choice(["native", "native", "ucsc"]) if not syntax.startswith("ucsc") else rng.choice(["native", "ucsc", "ucsc"]),
             style=rng.choice(["direct", "bigtools_sub", "bigtools_sub_ucsc"]), t=rng.choice([None, 1, 2, 4]), opts_first=rng.random() < 0.5)
    return dict(names=names, sizes=sizes, inputs=inputs, vclass=vclass, feats=sorted(feats), opts=o)


# ---------------------------------------------------------- command lines --
def merge_argv(cwd, o, k, out_name, out_type):
    """out_type None => rely on the output name."""
    flags = []
    for key in ("threshold", "adjust", "clip"):
        if o[key] is not None:
            flags.append(("-%s=%s" if o["flag_style"] == "ucsc" else "--%s=%s") % (key, ct.fmt_f32(o[key])))
    if out_type:
        flags.append("--output-type=" + out_type)
    if o["t"] is not None:
        flags.append("--nthreads=%d" % o["t"])
    ins = ["in%d.bw" % i for i in range(k)]
    syn = o["syntax"]
    if syn.startswith("ucsc"):
        head = [ct.symlink(cwd, "bigWigMerge")]
        if syn == "ucsc_inList":
            return head + flags + ["-inList", "inputs.txt", out_name]
        return head + flags + ins + [out_name]
    if o["style"] == "direct":
        head = [ct.bin_path("bigwigmerge")]
    elif o["style"] == "bigtools_sub":
        head = [ct.bin_path("bigtools"), "bigwigmerge"]
    else:
        head = [ct.bin_path("bigtools"), "bigWigMerge"]
    if syn == "-b":
        src = [x for i in ins for x in ("-b", i)]
    elif syn == "-l":
        src = ["-l", "inputs.txt"]
    else:  # first input with -b, the rest through a list file (clap order: all -b first, then lists)
        src = ["-b", ins[0], "-l", "inputs_rest.txt"]
    return head + (flags + src + [out_name] if o["opts_first"] else src + [out_name] + flags)


# ----------------------------------------------------------------- oracle --
def parse_bg(data):
    recs = {}
    order = []
    txt = data.decode("utf-8", "replace")
    for ln in txt.split("\n"):
        if ln == "":
            continue
        f = ln.split("\t")
        if len(f) != 4:
            return None, None, "line with %d fields: %r" % (len(f), ln[:80])
        try:
            rec = (int(f[1]), int(f[2]), ct.parse_f32(f[3]))
        except ValueError:
            return None, None, "unparsable line: %r" % ln[:80]
        if f[0] not in recs:
            recs[f[0]] = []
        order.append(f[0])
        recs[f[0]].append(rec)
    return recs, order, None


def structure_problems(recs, order, sizes):
    """sorted, positive length, non-overlapping, inside the chromosome. Returns [(site, witness)] and the set of unusable chroms."""
    probs, bad = [], set()
    runs = [c for i, c in enumerate(order) if i == 0 or order[i - 1] != c]
    if len(runs) != len(set(runs)):
        probs.append(("chromosome_runs_interleaved", runs[:10]))
    elif runs != sorted(runs, key=lambda s: s.encode()):
        probs.append(("chromosome_order", runs[:10]))
    for ch, ivs in recs.items():
        prev = 0
        for (s, e, v) in ivs:
            if e <= s:
                probs.append(("empty_or_negative_interval", [ch, s, e]))
                bad.add(ch)
                break
            if s < prev:
                probs.append(("overlapping_or_unsorted", [ch, s, e, "previous end %d" % prev]))
                bad.add(ch)
                break
            if ch in sizes and e > sizes[ch]:
                probs.append(("beyond_chromosome_end", [ch, s, e, sizes[ch]]))
                break
            prev = e
        if ch not in sizes:
            probs.append(("unknown_chromosome", [ch]))
            bad.add(ch)
    return probs, bad


def seg_values(bps, ivs):
    out = [None] * (len(bps) - 1)
    j = 0
    for i in range(len(bps) - 1):
        a = bps[i]
        while j < len(ivs) and ivs[j][1] <= a:
            j += 1
        if j < len(ivs) and ivs[j][0] <= a:
            out[i] = ivs[j][2]
    return out


def model_segment(terms, o, dyadic):
    """terms: stored values of the inputs covering the base, command-line order.
    Returns (state, value, tol, why) with state in present / absent / dontcare."""
    if not terms:
        return "absent", None, 0.0, "no_input_data"
    sigma64 = 0.0
    for t in terms:
        sigma64 += t
    k = len(terms)
    tol_in = 0.0 if dyadic else k * ct.ulp32(max(abs(t) for t in terms))
    if sigma64 == 0.0 or abs(sigma64) <= tol_in:
        if o["adjust"] is not None or sigma64 != 0.0:
            return "dontcare", None, 0.0, "sum_is_zero_or_within_tolerance_of_zero"
        return "absent", None, 0.0, "sum_is_zero"
    v = ct.f32(sigma64)
    if o["clip"] is not None:
        v = min(ct.f32(o["clip"]), v)
    if o["adjust"] is not None:
        v = ct.f32(v + ct.f32(o["adjust"]))
    thr = ct.f32(o["threshold"]) if o["threshold"] is not None else 0.0
    tol = 0.0 if dyadic else k * max(ct.ulp32(v), ct.ulp32(sigma64))
    if abs(v - thr) <= tol and tol > 0:
        return "dontcare", v, tol, "within_tolerance_of_threshold"
    if v > thr:
        return "present", v, tol, ""
    return "absent", v, tol, "at_or_below_threshold"


def compare_function(c, g, recs, bad_chroms, which, detail, extra_bps=None):
    """Compare one output (per-chrom intervals) with the model on every elementary segment."""
    o = g["opts"]
    dyadic = g["vclass"] == "dyadic"
    stats = dict(bases_present_checked=0, bases_absent_checked=0, bases_dontcare=0)
    for ch in g["names"]:
        if ch in bad_chroms:
            continue
        size = g["sizes"][ch]
        out_ivs = recs.get(ch, [])
        srcs = [d.get(ch, []) for d in g["inputs"]]
        if not out_ivs and not any(srcs):
            continue
        pts = {0, 1, size}
        for ivs in srcs + [out_ivs]:
            for (s, e, _) in ivs:
                pts.add(s)
                pts.add(e)
        bps = sorted(p for p in pts if 0 <= p <= max(size, max(pts)))
        cols = [seg_values(bps, ivs) for ivs in srcs]
        got = seg_values(bps, out_ivs)
        for i in range(len(bps) - 1):
            a, b = bps[i], bps[i + 1]
            terms = [col[i] for col in cols if col[i] is not None]
            state, want, tol, why = model_segment(terms, o, dyadic)
            gv = got[i]
            nb = b - a
            wit = dict(output=which, chrom=ch, bases=[a, b], input_values_here=[ct.fmt_f32(t) for t in terms], model_value=None if want is None else ct.fmt_f32(want),
                       got=None if gv is None else ct.fmt_f32(gv), clip=o["clip"], adjust=o["adjust"], threshold=o["threshold"])
            if state == "dontcare":
                stats["bases_dontcare"] += nb
                continue
            if state == "present":
                stats["bases_present_checked"] += nb
                if gv is None:
                    site = "base_0" if a == 0 else ("first_base_of_a_window" if a % W == 0 else "other_base")
                    c.viol("base_missing", "bigwigmerge:" + site, detail(witness=wit))
                elif abs(gv - want) > tol:
                    c.viol("value_wrong", "bigwigmerge:" + ("plain_sum" if o["clip"] is None and o["adjust"] is None else "with_clip_or_adjust"), detail(witness=wit))
            else:
                stats["bases_absent_checked"] += nb
                if gv is not None:
                    c.viol("base_unexpected", "bigwigmerge:" + why, detail(witness=wit))
    for k_, v_ in stats.items():
        c.count(k_, v_)


def same_function(recs_a, recs_b):
    for ch in set(recs_a) | set(recs_b):
        A, B = recs_a.get(ch, []), recs_b.get(ch, [])
        pts = sorted({p for ivs in (A, B) for (s, e, _) in ivs for p in (s, e)})
        if not pts:
            continue
        va, vb = seg_values(pts, A), seg_values(pts, B)
        for i in range(len(pts) - 1):
            if va[i] != vb[i]:
                return dict(chrom=ch, bases=[pts[i], pts[i + 1]], bedgraph_output=None if va[i] is None else ct.fmt_f32(va[i]), bigwig_output=None if vb[i] is None else ct.fmt_f32(vb[i]))
    return None


# ------------------------------------------------------------------- case --
def _case(c, seed, tier, index, cwd):
    rng = random.Random("%s:%s" % (seed, index))
    g = gen_case(rng, tier)
    o, k = g["opts"], g["opts"]["k"]
    texts = []
    for d in g["inputs"]:
        texts.append("".join("%s\t%d\t%d\t%s\n" % (ch, s, e, ct.fmt_f32(v)) for ch in sorted(d) for (s, e, v) in d[ch]))
    sizes_text = "".join("%s\t%d\n" % (n, g["sizes"][n]) for n in g["names"])
    c.opts = dict(k=k, threshold=o["threshold"] if g["vclass"] == "dyadic" else "float", adjust=o["adjust"] if g["vclass"] == "dyadic" else "float",
                  clip=o["clip"] if g["vclass"] == "dyadic" else "float", name=o["name"], output_type=o["output_type"], syntax=o["syntax"], flag_style=o["flag_style"], vclass=g["vclass"])
    c.desc = dict(opts=o, value_class=g["vclass"], chroms=[[n, g["sizes"][n]] for n in g["names"]], features=g["feats"],
                  inputs=[dict(chroms={ch: len(v) for ch, v in d.items()}, head=t[:160]) for d, t in zip(g["inputs"], texts)])
    c.hash = ct.sha(texts, sizes_text, o)
    c.nontrivial = sum(len(v) for d in g["inputs"] for v in d.values()) >= 2
    c.tag("k=%d" % k, "values:" + g["vclass"], "syntax:" + o["syntax"], "flags:" + o["flag_style"], "name:" + os.path.splitext(o["name"])[1],
          "output-type:" + (o["output_type"] or "from_name"), "primary:" + o["primary_type"])
    for key in ("threshold", "adjust", "clip"):
        c.tag("%s:%s" % (key, "default" if o[key] is None else ("set" if g["vclass"] == "float" else ct.fmt_f32(o[key]))))
    for f in g["feats"]:
        c.tag("input:" + f)

    files = {"chrom.sizes": sizes_text}
    for i, t in enumerate(texts):
        files["in%d.bedGraph" % i] = ct.trunc(t, max(300, ct.MAXTXT // k))

    def detail(**kw):
        d = dict(commands=list(c.log), cwd_files=files, note="inputs are made with: bedgraphtobigwig inN.bedGraph chrom.sizes inN.bw ; inputs.txt lists in0.bw..in%d.bw one per line; "
                 "./bigWigMerge is a symlink to %s" % (k - 1, ct.bin_path("bigtools")))
        d.update(kw)
        return d

    # ---- inputs
    ct.write(cwd, "chrom.sizes", sizes_text)
    for i, t in enumerate(texts):
        ct.write(cwd, "in%d.bedGraph" % i, t)
        r = ct.run([ct.bin_path("bedgraphtobigwig"), "in%d.bedGraph" % i, "chrom.sizes", "in%d.bw" % i, "-t", "1"], cwd)
        if not c.ran(r, "bedgraphtobigwig"):
            return
        ok = r.rc == 0 and ct.exists(cwd, "in%d.bw" % i)
        if ok:
            r2 = ct.run([ct.bin_path("bigwigtobedgraph"), "in%d.bw" % i, "in%d.check" % i, "-t", "1"], cwd)
            if not c.ran(r2, "bigwigtobedgraph"):
                return
            ok = r2.rc == 0 and ct.exists(cwd, "in%d.check" % i)
            if ok:
                recs, _, bad = parse_bg(ct.read(cwd, "in%d.check" % i))
                ok = bad is None and recs == {ch: [(s, e, ct.f32(v)) for (s, e, v) in ivs] for ch, ivs in g["inputs"][i].items()}
        if not ok:
            c.blocked = "C16"
            c.notes.append("an input bigWig could not be written / does not hold the generated values: C16's business")
            return
    ct.write(cwd, "inputs.txt", "".join("in%d.bw\n" % i for i in range(k)))
    ct.write(cwd, "inputs_rest.txt", "".join("in%d.bw\n" % i for i in range(1, k)))

    def merge(out_name, out_type, documented_name, empty_stream=False):
        """Run one merge. Returns the output file name, or None (reported), or "blocked" (empty stream only).

        empty_stream: the bedGraph merge of the same inputs/settings produced no interval.  Whether the bigWig
        *writer* copes with a file without data is C13's business: a hang (short 5 s budget, not re-run), a panic
        or an error exit there is counted as blocked by C13, not as a C15 verdict."""
        argv = merge_argv(cwd, o, k, out_name, out_type)
        if empty_stream:
            r = ct.run(argv, cwd, timeout=5)
            c.count("tool_invocations")
            c.log.append(r.cmdline + "   -> rc=%s%s" % (r.rc, " TIMEOUT(5s)" if r.timed_out else ""))
            if r.timed_out or r.panicked():
                # a merge whose settings filter out every value: the tool must still terminate without panicking
                c.viol("empty_merge_to_bigwig", "hang" if r.timed_out else "panic", detail(rc=r.rc, stderr=r.err[:600]))
                return None
            if r.rc != 0:
                c.count("empty_merge_to_bigwig_refused_with_error_exit")
                return "blocked"
        else:
            r = ct.run(argv, cwd)
            if not c.ran(r, "bigwigmerge"):
                return None
        c.count("merges")
        if r.panicked():
            c.viol("panic", "bigwigmerge", detail(rc=r.rc, stderr=r.err[:800]))
            return None
        if r.rc != 0:
            c.viol("nonzero_exit", "bigwigmerge", detail(rc=r.rc, stderr=r.err[:800]))
            return None
        if not ct.exists(cwd, out_name):
            ext = os.path.splitext(out_name)[1]
            c.viol("exit_zero_but_no_output", "bigwigmerge:" + (ext if documented_name else "--output-type"), detail(rc=r.rc, stderr=r.err[:600],
                   what="exit status 0, nothing written; the help text documents `.bw`, `.bigWig` (bigWig) and `.bedGraph` (bedGraph) as recognised output names"))
            return None
        return out_name

    prim_is_bg = o["primary_type"] == "bedgraph"
    documented = o["output_type"] is None
    # ---- bedGraph-type merge first (its emptiness tells whether the bigWig writer could terminate)
    if prim_is_bg:
        bg_file = merge(o["name"], o["output_type"], documented)
        if bg_file is None and documented and not c.timeouts:
            c.tag("fallback:--output-type")
            bg_file = merge("out_fallback.dat", "bedgraph", False)
    else:
        bg_file = merge("second.dat", "bedgraph", False)
    if c.timeouts:
        return
    bg = None
    if bg_file:
        bg, order, bad = parse_bg(ct.read(cwd, bg_file))
        if bg is None:
            c.viol("malformed_output", "bigwigmerge:bedgraph", detail(problem=bad))
        else:
            probs, bad_chroms = structure_problems(bg, order, g["sizes"])
            for (site, wit) in probs:
                c.viol("output_not_sorted_disjoint", "bigwigmerge:" + site, detail(output="bedgraph", witness=wit))
            c.count("output_intervals", sum(len(v) for v in bg.values()))
            compare_function(c, g, bg, bad_chroms, "bedgraph", detail)
    # ---- bigWig-type merge
    if bg is None:
        # no bedGraph reference (that merge itself failed and was reported): nothing to compare the bigWig with
        c.tag("bigwig_merge_skipped:no_bedgraph_reference")
        return
    empty = not any(bg.values())
    if empty:
        c.tag("merged_stream_empty")
    if not prim_is_bg:
        bw_file = merge(o["name"], o["output_type"], documented, empty_stream=empty)
        if bw_file is None and documented and not c.timeouts:
            c.tag("fallback:--output-type")
            bw_file = merge("out_fallback.dat", "bigwig", False, empty_stream=empty)
    else:
        bw_file = merge("second.dat", "bigwig", False, empty_stream=empty)
    if bw_file == "blocked":
        if not prim_is_bg and not c.violations:
            c.blocked = "C13"
        return
    if c.timeouts or not bw_file:
        return
    r = ct.run([ct.bin_path("bigwigtobedgraph"), bw_file, "merged_bw.bedGraph", "-t", "1"], cwd)
    if not c.ran(r, "bigwigtobedgraph"):
        return
    if r.rc != 0 or not ct.exists(cwd, "merged_bw.bedGraph"):
        c.viol("unreadable_bigwig_output", "bigwigmerge", detail(rc=r.rc, stderr=r.err[:600]))
        return
    bwrecs, order, bad = parse_bg(ct.read(cwd, "merged_bw.bedGraph"))
    if bwrecs is None:
        c.inconclusive = "could not parse bigwigtobedgraph output: %s" % bad
        return
    probs, bad_chroms = structure_problems(bwrecs, order, g["sizes"])
    for (site, wit) in probs:
        c.viol("output_not_sorted_disjoint", "bigwigmerge:" + site, detail(output="bigwig", witness=wit))
    compare_function(c, g, bwrecs, bad_chroms, "bigwig", detail)
    if bg is not None:
        c.count("bedgraph_vs_bigwig_compared")
        diff = same_function(bg, bwrecs)
        if diff:
            c.viol("bedgraph_and_bigwig_outputs_differ", "bigwigmerge", detail(witness=diff))


# ------------------------------------------------------------------- legs --
def legs(tier, seed, scratch):
    n = N_CASES.get(tier, N_CASES["quick"])

    def run(leg_dict):
        leg = pyleg.PyLeg("c15-bigwigmerge", cmd=KIND, seed=seed, tier=tier)
        ct.run_cases(leg, _case, range(n), seed, tier, os.path.join(scratch, "c15-bigwigmerge"), KIND)
        return leg.done(extra=dict(notes=leg.res.notes))
    return [{"name": "c15-bigwigmerge", "run": run}]


def replay(j, scratch):
    return ct.replay_case(_case, j, os.path.join(scratch, "replay"))


props.REPLAYERS[KIND] = replay
