//! C15 (library part): merge_sections_many / merge_into / fill preserve the per-base signal.
//! C17 (library part): stats_for_bed_item / bigwig_average_over_bed / name_for_bed_item.
use crate::cases::rt::{gen_bw_case, BwGenCfg};
use crate::gen::*;
use crate::model;
use crate::proto::{Ctx, Outcome};
use crate::sink::MemSink;
use crate::util::{Fnv, Rng, J};
use crate::wr::{self, CallResult};
use bigtools::utils::fill::{fill, fill_start_to_end};
use bigtools::utils::merge::{merge_into, merge_sections_many};
use bigtools::utils::misc::{bigwig_average_over_bed, name_for_bed_item, stats_for_bed_item, Name};
use bigtools::{BedEntry, BigWigRead, Value};
use std::io::Cursor;

const WINDOW: u32 = 50_000;
const DYADIC: &[f32] = &[1.0, 2.0, 3.0, 0.5, 0.25, -1.0, -2.5, 4.0, 7.0, 10.0, 100.0, 0.125, -0.5, 1.5, 6.0];

fn gen_stream(r: &mut Rng, span: u32, cancel_of: Option<&[Value]>, scale: f32) -> Vec<Value> {
    if let Some(other) = cancel_of {
        // the negative of part of another stream (sums cancel to 0 there)
        return other.iter().filter(|_| r.chance(2, 3)).map(|v| Value { start: v.start, end: v.end, value: -v.value }).collect();
    }
    let mut v = vec![];
    if r.chance(1, 10) {
        return v; // empty stream
    }
    let mut pos: u32 = if r.chance(1, 2) { 0 } else { r.below(span as u64 / 2) as u32 };
    let n = *r.pick(&[1usize, 3, 10, 40, 200]);
    while v.len() < n && pos < span {
        let w = (pos / WINDOW + 1) * WINDOW; // next window boundary
        let len = match r.below(8) {
            0 if w < span => w - pos + r.range(0, 5) as u32,       // crosses the next boundary by a few bases
            1 if w < span => (w - pos).max(1),                       // ends exactly on the boundary
            2 => WINDOW * 2 + r.range(1, 100) as u32,                // spans three windows
            3 => 1,
            _ => r.range(1, 30) as u32,
        };
        let end = pos.saturating_add(len).min(span);
        if end <= pos {
            break;
        }
        // scale 0 marks the mixed-magnitude class: integers around 2^24 next to small ones -- every f64 sum is still
        // exact (so summation order cannot matter) but a running f32 sum rounds differently from "sum, then narrow"
        let value = if r.chance(1, 12) {
            0.0
        } else if scale == 0.0 {
            *r.pick(&[16_777_216.0f32, 1.0, 1.0, 2.0, 3.0, -16_777_216.0, 33_554_432.0, 0.5, 1.0e8, -1.0e8])
        } else {
            *r.pick(DYADIC) * scale
        };
        v.push(Value { start: pos, end, value });
        let gap = match r.below(8) {
            0 => 0,
            1 => WINDOW + r.range(1, 1000) as u32, // a gap longer than a window
            2 if w > end && w < span => w - end,   // next value starts exactly on a boundary
            _ => r.range(0, 40) as u32,
        };
        pos = end.saturating_add(gap);
    }
    v
}

pub fn c15m(ctx: &Ctx, begin: &mut dyn FnMut(J)) -> Outcome {
    let mut r = Rng::derive(ctx.seed, 0xC15, ctx.case);
    let span = *r.pick(&[60_000u32, 120_000, 260_000, 49_999, 50_000, 50_001, 100_000]);
    let k = r.range(1, 6) as usize;
    // one case in five uses the same dyadic values scaled by 2^-64 (p-value-like magnitudes, sums still exact):
    // "equal" and "zero" must mean exactly that, not "closer than some epsilon"
    let scale: f32 = match r.below(10) {
        0 | 1 => f32::from_bits((127 - 64) << 23),
        2 | 3 => 0.0,
        _ => 1.0,
    };
    let mut streams: Vec<Vec<Value>> = vec![];
    for i in 0..k {
        let s = if i > 0 && r.chance(1, 5) { gen_stream(&mut r, span, Some(&streams[i - 1].clone()), scale) } else { gen_stream(&mut r, span, None, scale) };
        streams.push(s);
    }
    begin(J::obj().set("span", span.into()).set("streams", J::A(streams.iter().map(|s| J::A(s.iter().take(40).map(|v| J::A(vec![v.start.into(), v.end.into(), J::F(v.value as f64)])).collect())).collect())));
    let mut out = Outcome::new();
    let mut f = Fnv::new();
    for s in &streams {
        f.u64(0xfeed);
        for v in s {
            f.u64(v.start as u64);
            f.u64(v.end as u64);
            f.u64(v.value.to_bits() as u64);
        }
    }
    out.hash = f.hex();
    out.nontrivial = streams.iter().filter(|s| !s.is_empty()).count() >= 2;
    // model: per-base f64 sum in stream order
    let mut modelv = vec![0f64; span as usize];
    let mut has = vec![false; span as usize];
    for s in &streams {
        for v in s {
            for p in v.start..v.end {
                modelv[p as usize] += v.value as f64;
                has[p as usize] = true;
            }
        }
    }
    let res = wr::guard(|| merge_sections_many(streams.iter().map(|s| s.clone().into_iter().map(Ok::<Value, ()>)).collect::<Vec<_>>()).collect::<Result<Vec<Value>, ()>>());
    let merged = match res {
        Ok(Ok(m)) => m,
        Ok(Err(())) => {
            out.viol("merge_returned_error", "", J::Null);
            return out;
        }
        Err(p) => {
            out.viol("merge_panicked", wr::panic_site(&p), J::s(p.join("|")));
            return out;
        }
    };
    out.count("merged_values", merged.len() as u64);
    let mut got = vec![f32::NAN; span as usize];
    let mut last_end = 0u32;
    for v in &merged {
        if v.end <= v.start {
            out.viol("merged_value_not_positive_length", "", J::A(vec![v.start.into(), v.end.into()]));
            continue;
        }
        if v.start < last_end {
            out.viol("merged_stream_overlaps_or_unsorted", "", J::A(vec![v.start.into(), v.end.into(), last_end.into()]));
        }
        last_end = last_end.max(v.end);
        if v.end > span {
            out.viol("merged_value_beyond_inputs", "", J::A(vec![v.start.into(), v.end.into()]));
            continue;
        }
        for p in v.start..v.end {
            got[p as usize] = v.value;
        }
    }
    // classify the first disagreement
    for p in 0..span as usize {
        let want = modelv[p];
        let g = got[p];
        let at_window_edge = (p as u32 % WINDOW) < 2 || (p as u32 % WINDOW) > WINDOW - 3;
        let site = if p == 0 {
            "base_0"
        } else if at_window_edge {
            "at_window_boundary"
        } else {
            "inside_window"
        };
        if want != 0.0 {
            if g.is_nan() {
                out.viol("base_with_signal_missing", site, J::obj().set("base", p.into()).set("want", J::F(want)));
                break;
            } else if g.to_bits() != (want as f32).to_bits() {
                out.viol("merged_value_wrong", site, J::obj().set("base", p.into()).set("want", J::F(want)).set("got", J::F(g as f64)));
                break;
            }
        } else if !g.is_nan() {
            out.viol(if has[p] { "zero_sum_base_present" } else { "base_without_data_present" }, site, J::obj().set("base", p.into()).set("got", J::F(g as f64)));
            break;
        }
    }
    if streams.iter().any(|s| s.iter().any(|v| v.start / WINDOW != (v.end - 1) / WINDOW)) {
        out.tag("value_crosses_window_boundary");
    }
    if has.iter().zip(&modelv).any(|(h, m)| *h && *m == 0.0) {
        out.tag("cancelling_or_explicit_zero");
    }
    if streams.iter().any(|s| s.first().map(|v| v.start == 0).unwrap_or(false)) {
        out.tag("starts_at_base_0");
    }
    out.tag(if scale == 1.0 {
        "magnitude:unit"
    } else if scale == 0.0 {
        "magnitude:mixed_2^24_and_small"
    } else {
        "magnitude:2^-64"
    });
    out
}

/// merge_into on every overlapping pair of a small grid + fill / fill_start_to_end
pub fn c15f(ctx: &Ctx, begin: &mut dyn FnMut(J)) -> Outcome {
    let mut r = Rng::derive(ctx.seed, 0xC15F, ctx.case);
    let mut out = Outcome::new();
    out.nontrivial = true;
    if ctx.case == 0 {
        begin(J::s("merge_into: all pairs one=[a,b) two=[c,d) with a <= c < b on a 0..7 grid"));
        out.hash = "merge_into_grid".into();
        let mut pairs = 0u64;
        for a in 0..7u32 {
            for b in a + 1..8 {
                for c in a..b {
                    for d in c + 1..9 {
                        pairs += 1;
                        let one = Value { start: a, end: b, value: 2.0 };
                        let two = Value { start: c, end: d, value: 0.5 };
                        let res = wr::guard(|| merge_into(one, two));
                        let site = format!("{}", if a == c { "same_start" } else { "later_start" });
                        match res {
                            Ok((v1, v2, v3, ov)) => {
                                let pieces: Vec<Value> = [Some(v1), v2, v3, ov].into_iter().flatten().collect();
                                let mut got = [0f32; 10];
                                let mut seen = [false; 10];
                                let mut ok = true;
                                let mut last_end = 0;
                                for (i, p) in pieces.iter().enumerate() {
                                    if p.end <= p.start || (i > 0 && p.start < last_end) {
                                        ok = false;
                                    }
                                    last_end = p.end;
                                    for x in p.start..p.end.min(10) {
                                        if seen[x as usize] {
                                            ok = false;
                                        }
                                        seen[x as usize] = true;
                                        got[x as usize] = p.value;
                                    }
                                }
                                for x in 0..10u32 {
                                    let want = (if x >= a && x < b { 2.0 } else { 0.0 }) + (if x >= c && x < d { 0.5 } else { 0.0 });
                                    let covered = (x >= a && x < b) || (x >= c && x < d);
                                    if covered != seen[x as usize] || (covered && got[x as usize] != want) {
                                        ok = false;
                                    }
                                }
                                if !ok {
                                    out.viol("merge_into_wrong", site, J::obj().set("one", J::A(vec![a.into(), b.into()])).set("two", J::A(vec![c.into(), d.into()])).set("pieces", J::s(format!("{:?}", pieces))));
                                }
                            }
                            Err(p) => out.viol("merge_into_panicked", format!("{}:{}", site, wr::panic_site(&p)), J::obj().set("one", J::A(vec![a.into(), b.into()])).set("two", J::A(vec![c.into(), d.into()]))),
                        }
                    }
                }
            }
        }
        out.count("merge_into_pairs", pairs);
        return out;
    }
    let span = 5000u32;
    let mut vals = vec![];
    let mut pos = if r.chance(1, 3) { 0 } else { r.below(50) as u32 };
    let n = r.range(0, 30);
    for _ in 0..n {
        let len = r.range(1, 40) as u32;
        if pos + len > span {
            break;
        }
        vals.push(Value { start: pos, end: pos + len, value: if r.chance(1, 8) { 0.0 } else { *r.pick(DYADIC) } });
        pos += len + if r.chance(1, 2) { 0 } else { r.range(1, 60) as u32 };
    }
    let padded = r.chance(1, 2);
    let (ps, pe) = if padded {
        let s = vals.first().map(|v| v.start).unwrap_or(10).saturating_sub(r.below(20) as u32);
        let e = vals.last().map(|v| v.end).unwrap_or(20) + r.below(50) as u32;
        (s, e)
    } else {
        (0, 0)
    };
    begin(J::obj().set("values", J::A(vals.iter().map(|v| J::A(vec![v.start.into(), v.end.into(), J::F(v.value as f64)])).collect())).set("fill_start_to_end", if padded { J::A(vec![ps.into(), pe.into()]) } else { J::Null }));
    let mut f = Fnv::new();
    for v in &vals {
        f.u64(v.start as u64);
        f.u64(v.end as u64);
        f.u64(v.value.to_bits() as u64);
    }
    f.u64(ps as u64);
    f.u64(pe as u64);
    out.hash = f.hex();
    let res = wr::guard(|| {
        let it = vals.clone().into_iter().map(Ok::<Value, std::io::Error>);
        if padded {
            fill_start_to_end(it, ps, pe).collect::<Result<Vec<Value>, _>>()
        } else {
            fill(it).collect::<Result<Vec<Value>, _>>()
        }
    });
    let filled = match res {
        Ok(Ok(v)) => v,
        Ok(Err(e)) => {
            out.viol("fill_error", "", J::s(e.to_string()));
            return out;
        }
        Err(p) => {
            out.viol("fill_panicked", wr::panic_site(&p), J::Null);
            return out;
        }
    };
    let site = if padded { "fill_start_to_end" } else { "fill" };
    // gapless, ordered, positive-length
    for w in filled.windows(2) {
        if w[0].end != w[1].start {
            out.viol("fill_not_gapless", site, J::s(format!("{:?} then {:?}", w[0], w[1])));
            break;
        }
    }
    if filled.iter().any(|v| v.end <= v.start) {
        out.viol("fill_emits_empty_value", site, J::Null);
    }
    // every original value present unchanged, in order; everything else is a zero filling exactly a gap
    let mut it = vals.iter().peekable();
    for fv in &filled {
        if let Some(o) = it.peek() {
            if o.start == fv.start && o.end == fv.end && o.value.to_bits() == fv.value.to_bits() {
                it.next();
                continue;
            }
        }
        if fv.value != 0.0 {
            out.viol("fill_added_nonzero_or_altered_value", site, J::s(format!("{:?}", fv)));
            break;
        }
    }
    if it.peek().is_some() {
        out.viol("fill_lost_original_value", site, J::s(format!("{:?}", it.peek())));
    }
    let want_start = if padded { ps.min(vals.first().map(|v| v.start).unwrap_or(ps)) } else { 0 };
    let want_end = if padded { pe.max(vals.last().map(|v| v.end).unwrap_or(pe)) } else { vals.last().map(|v| v.end).unwrap_or(0) };
    if let (Some(a), Some(b)) = (filled.first(), filled.last()) {
        if a.start != want_start || b.end != want_end {
            out.viol("fill_padding_wrong", site, J::obj().set("got", J::A(vec![a.start.into(), b.end.into()])).set("want", J::A(vec![want_start.into(), want_end.into()])));
        }
    } else if want_end > want_start {
        out.viol("fill_padding_wrong", format!("{}:empty_output", site), J::A(vec![want_start.into(), want_end.into()]));
    }
    out
}

/// C17 library part
pub fn c17l(ctx: &Ctx, begin: &mut dyn FnMut(J)) -> Outcome {
    let mut r = Rng::derive(ctx.seed, 0xC17, ctx.case);
    let exact = r.chance(1, 2);
    let mut case = gen_bw_case(&mut r, &BwGenCfg { allow_zero_len: false, huge_ok: false, small_slots: true, allow_unsorted_chroms: false, max_chroms: 4, force_exact: exact });
    case.opts.source = Source::Serial;
    let mut out = Outcome::new();
    // regions
    let mut regions: Vec<(usize, BedEntry)> = vec![];
    let nreg = r.range(1, 40);
    for i in 0..nreg {
        let ci = r.below(case.input.len() as u64) as usize;
        let (c, vs) = &case.input[ci];
        let mut pts: Vec<u32> = vec![0, c.size];
        for v in vs {
            pts.extend_from_slice(&[v.start, v.end, v.start.saturating_sub(3), (v.end + 3).min(c.size), (v.start + v.end) / 2]);
        }
        let a = *r.pick(&pts);
        let b = *r.pick(&pts);
        let (mut s, mut e) = (a.min(b), a.max(b));
        if s == e {
            e = (s + 1 + r.below(20) as u32).min(c.size);
            if e <= s {
                continue;
            }
        }
        // one region in twelve runs past the end of the chromosome (or lies wholly beyond it): its size is
        // still end - start, and nothing is stored out there
        if r.chance(1, 12) && c.size < u32::MAX - 1000 {
            if r.chance(1, 3) {
                s = c.size + r.below(50) as u32;
            }
            e = c.size + 1 + r.below(500) as u32;
            if e <= s {
                e = s + 1;
            }
        }
        let ncols = r.below(4) as usize;
        let mut rest = gen_rest(&mut r, ncols);
        if ncols > 0 {
            rest = format!("region{}\t{}", i, rest).trim_end_matches('\t').to_string();
        }
        regions.push((ci, BedEntry { start: s, end: e, rest }));
    }
    begin(
        J::obj()
            .set("opts", case.opts.to_json())
            .set("input", bw_input_json(&case.input))
            .set("regions", J::A(regions.iter().map(|(ci, e)| J::A(vec![J::s(case.input[*ci].0.name.clone()), e.start.into(), e.end.into(), J::s(e.rest.clone())])).collect())),
    );
    let mut f = Fnv::new();
    f.str(&case.hash);
    for (ci, e) in &regions {
        f.u64(*ci as u64);
        f.u64(e.start as u64);
        f.u64(e.end as u64);
    }
    out.hash = f.hex();
    out.nontrivial = regions.len() >= 2;
    let sink = MemSink::new();
    if !matches!(wr::write_bw(sink.clone(), &case.input, &case.opts, Some(&ctx.scratch), &[]), CallResult::Ok) {
        out.inconclusive = Some("blocked_by:C01 write failed".into());
        return out;
    }
    let bytes = sink.bytes();
    let close = |a: f64, b: f64, scale: f64| (a.is_nan() && b.is_nan()) || a == b || (!exact && (a - b).abs() <= 1e-9 * scale.max(1e-300));
    let run = wr::guard(|| -> Result<(), String> {
        let mut rd = BigWigRead::open(Cursor::new(bytes.clone())).map_err(|e| e.to_string())?;
        for (ci, e) in &regions {
            let (c, vs) = &case.input[*ci];
            let m = model::bw_stats(vs, e.start, e.end);
            let got = stats_for_bed_item(&c.name, e.clone(), &mut rd).map_err(|x| x.to_string())?;
            out.count("regions", 1);
            let size = e.end - e.start;
            let kind = if m.bases == 0 {
                "nothing_covered"
            } else if m.bases == size as u64 {
                "fully_covered"
            } else {
                "partly_covered"
            };
            out.tag(kind);
            if e.end > c.size {
                out.tag(if e.start >= c.size { "region_beyond_chrom_end" } else { "region_straddles_chrom_end" });
            }
            let d = || {
                J::obj()
                    .set("chrom", J::s(c.name.clone()))
                    .set("region", J::A(vec![e.start.into(), e.end.into()]))
                    .set("got", J::A(vec![got.size.into(), got.bases.into(), J::F(got.sum), J::F(got.mean0), J::F(got.mean), J::F(got.min), J::F(got.max)]))
                    .set("model", J::A(vec![size.into(), m.bases.into(), J::F(m.sum), J::F(m.sum / size as f64), J::F(m.sum / m.bases as f64), J::F(m.min), J::F(m.max)]))
            };
            if got.size != size {
                out.viol("size_wrong", kind, d());
            }
            if got.bases as u64 != m.bases {
                out.viol("bases_wrong", kind, d());
            }
            if !close(got.sum, m.sum, m.abs_sum) {
                out.viol("sum_wrong", kind, d());
            }
            if !close(got.mean0, m.sum / size as f64, m.abs_sum / size as f64) {
                out.viol("mean0_wrong", kind, d());
            }
            if m.bases == 0 {
                if !(got.mean.is_nan() && got.min.is_nan() && got.max.is_nan()) {
                    out.viol("uncovered_region_not_nan", "", d());
                }
            } else {
                if !close(got.mean, m.sum / m.bases as f64, m.abs_sum / m.bases as f64) {
                    out.viol("mean_wrong", kind, d());
                }
                if got.min != m.min {
                    out.viol("min_wrong", kind, d());
                }
                if got.max != m.max {
                    out.viol("max_wrong", kind, d());
                }
            }
            // names
            let cols: Vec<&str> = if e.rest.is_empty() { vec![] } else { e.rest.split('\t').collect() };
            for col in 0..cols.len() + 5 {
                let res = wr::guard(|| name_for_bed_item(Name::Column(col), &c.name, e));
                let want: Option<String> = match col {
                    0 => Some(c.name.clone()),
                    1 => Some(e.start.to_string()),
                    2 => Some(e.end.to_string()),
                    k if k - 3 < cols.len() => Some(cols[k - 3].to_string()),
                    _ => None,
                };
                match (res, want) {
                    (Ok(Ok(g)), Some(w)) if g == w => {}
                    (Ok(Err(_)), None) => out.count("out_of_range_name_column_is_an_error", 1),
                    // a 3-column line asked for column 4: bigtools returns the empty string (the
                    // empty rest splits into one empty field). The property does not define this
                    // case; it is counted, not judged.
                    (Ok(Ok(g)), None) if g.is_empty() && e.rest.is_empty() && col == 3 => out.count("bed3_line_name_column_4_is_empty_string", 1),
                    (Err(p), _) => out.viol("name_for_bed_item_panicked", wr::panic_site(&p), J::obj().set("col", col.into()).set("rest", J::s(e.rest.clone()))),
                    (g, w) => out.viol("name_column_wrong", if w.is_none() { "out_of_range_column" } else { "in_range_column" }, J::obj().set("col", col.into()).set("got", J::s(format!("{:?}", g.map(|x| x.map_err(|e| e.to_string()))))).set("want", J::s(format!("{:?}", w)))),
                }
            }
            match name_for_bed_item(Name::Interval, &c.name, e) {
                Ok(n) if n == format!("{}:{}-{}", c.name, e.start, e.end) => {}
                other => out.viol("interval_name_wrong", "", J::s(format!("{:?}", other.map_err(|e| e.to_string())))),
            }
        }
        // the streaming function: one row per input row, in input order
        let mut text = String::new();
        for (ci, e) in &regions {
            let c = &case.input[*ci].0;
            if e.rest.is_empty() {
                text.push_str(&format!("{}\t{}\t{}\n", c.name, e.start, e.end));
            } else {
                text.push_str(&format!("{}\t{}\t{}\t{}\n", c.name, e.start, e.end, e.rest));
            }
        }
        let rd2 = BigWigRead::open(Cursor::new(bytes.clone())).map_err(|e| e.to_string())?;
        let rows: Vec<_> = bigwig_average_over_bed(Cursor::new(text.into_bytes()), rd2, Name::Interval).collect();
        if rows.len() != regions.len() {
            out.viol("rows_not_one_per_input_row", "", J::obj().set("rows", rows.len().into()).set("regions", regions.len().into()));
        }
        for (row, (ci, e)) in rows.iter().zip(&regions) {
            match row {
                Ok((name, st)) => {
                    let c = &case.input[*ci].0;
                    if *name != format!("{}:{}-{}", c.name, e.start, e.end) || st.size != e.end - e.start {
                        out.viol("rows_out_of_input_order", "", J::s(name.clone()));
                        break;
                    }
                }
                Err(er) => {
                    out.viol("average_over_bed_row_error", "", J::s(er.to_string()));
                    break;
                }
            }
        }
        Ok(())
    });
    match run {
        Ok(Ok(())) => {}
        Ok(Err(e)) => out.viol("stats_failed", wr::truncate(&e, 50), J::s(e)),
        Err(p) => out.viol("stats_panicked", wr::panic_site(&p), J::s(p.join("|"))),
    }
    out
}
