"""Per-property configuration of the checks (legs, case counts, evidence text)."""

REPLAYERS = {}


def _q(tier, quick, thorough):
    return quick if tier == "quick" else thorough


def _legs_simple(cmd, quick, thorough, **kw):
    def f(tier, seed, scratch):
        leg = dict(cmd=cmd, cases=_q(tier, quick, thorough), name=cmd)
        leg.update(kw)
        return [leg]
    return f


GEN_NOTE = (
    "Inputs come from the seeded structured generators in harness/src/gen.rs (chromosome pool stressing byte "
    "order / key padding, sizes 50..6000 plus occasional sizes up to u32::MAX populated sparsely; layouts with gaps "
    "and lengths drawn relative to the zoom resolutions in force; zero-length items; items at 0 and at the chromosome "
    "end) crossed with random option vectors (compress, items_per_slot in {1,2,3,5,16,1024}, block_size in "
    "{2,3,4,5,16,256}, auto/manual zooms, inmemory, channel_size in {0,1,100}, current-thread or 1..16 workers, "
    "single/two pass, iterator / text-file / parallel source, sort type ALL/START). "
)

PROPS = {
    "C01": dict(
        level="exploration",
        floor=50,
        builds=["harness"],
        legs=_legs_simple("c01", 1500, 40000),
        rule=GEN_NOTE + "A case is one (input, options) pair written through BigWigWrite into an in-memory sink and read "
        "back with get_interval(chrom,0,size) per chromosome plus chroms(); values compared by to_bits, order "
        "included. Non-trivial = >=2 chromosomes, or a chromosome spanning >=2 sections, or a zero-length / "
        "chromosome-end item present; distinct by hash of (input, options). Case 0 is the 65535-items-per-slot "
        "boundary file (70000 items).",
        assumptions=[
            "the in-memory sink behaves like a file (Write+Seek semantics of std::io::Cursor, sparse seeks zero-fill)",
            "cases blocked by a C18 failure of the parallel source are counted as blocked, not held",
        ],
    ),
    "C02": dict(
        level="exploration",
        floor=50,
        builds=["harness"],
        legs=_legs_simple("c02", 1500, 40000),
        rule=GEN_NOTE + "bigBed layouts: disjoint / overlapping / nested / duplicate / zero-length / long-then-short, rest "
        "fields with 0..20 tab-separated UTF-8 columns. A case writes through BigBedWrite (autosql none / generated / "
        "custom) and reads back get_interval(chrom,0,max(size,max end)), item_count(), autosql(), chroms(); entries "
        "compared as sequences. Non-trivial = >=2 chromosomes, >=2 sections, overlaps or zero-length present.",
        assumptions=["same sink assumption as C01"],
    ),
    "C07": dict(
        level="exploration",
        floor=50,
        builds=["harness"],
        legs=_legs_simple("c07", 1200, 30000),
        rule=GEN_NOTE + "items_per_slot in {1,2,3,5} and block_size in {2,3,4} so a zoom level spans several blocks; manual "
        "resolutions {1,4,7,10,13,100,400,1000,...} two times out of three. Every zoom block of every level is decoded "
        "by the independent walker (harness/src/walk.rs) and each record compared with statistics recomputed from the "
        "input (covered bases exact, min/max exact, sum/sumsq within 2 ulp + 1e-6 * sum|term|); per chromosome the "
        "records' covered bases must add up to the data's; levels strictly increasing; reader's get_zoom_interval = "
        "walker's records on the full span and must/may sets on sub-ranges from record boundaries; cfg-hook invariant: "
        "the tiling cursor never moves before the start of the value being added. Non-trivial = the file has >= 2 zoom "
        "records in total.",
        assumptions=["libdeflater (a generic zlib implementation) is trusted to inflate blocks for the walker"],
    ),
    "C08": dict(
        level="exploration",
        floor=50,
        builds=["harness"],
        legs=_legs_simple("c08", 1200, 30000),
        rule=GEN_NOTE + "Same oracle as C07 with the per-base coverage depth of the entries as the signal (depth array built "
        "per base; only covered bases count). No entry (0,0) is generated (that input is C02's finding).",
        assumptions=["libdeflater is trusted to inflate blocks for the walker"],
    ),
}
NOT_APPLICABLE = {}
