//! Hand-written PRNG, JSON writer and hashing (nothing may be fetched).
use std::fmt::Write as _;

#[derive(Clone)]
pub struct Rng(pub u64);
impl Rng {
    pub fn new(seed: u64) -> Self {
        let mut r = Rng(seed ^ 0x9E37_79B9_7F4A_7C15);
        r.next();
        r
    }
    /// Derive an independent stream for (seed, a, b).
    pub fn derive(seed: u64, a: u64, b: u64) -> Self {
        let mut r = Rng::new(seed);
        r.0 ^= a.wrapping_mul(0xD6E8_FEB8_6659_FD93);
        r.next();
        r.0 ^= b.wrapping_mul(0xA076_1D64_78BD_642F);
        r.next();
        r
    }
    pub fn next(&mut self) -> u64 {
        self.0 = self.0.wrapping_add(0x9E37_79B9_7F4A_7C15);
        let mut z = self.0;
        z = (z ^ (z >> 30)).wrapping_mul(0xBF58_476D_1CE4_E5B9);
        z = (z ^ (z >> 27)).wrapping_mul(0x94D0_49BB_1331_11EB);
        z ^ (z >> 31)
    }
    /// uniform in [0, n)
    pub fn below(&mut self, n: u64) -> u64 {
        if n == 0 {
            0
        } else {
            self.next() % n
        }
    }
    /// uniform in [lo, hi] inclusive
    pub fn range(&mut self, lo: u64, hi: u64) -> u64 {
        lo + self.below(hi - lo + 1)
    }
    pub fn chance(&mut self, num: u64, den: u64) -> bool {
        self.below(den) < num
    }
    pub fn pick<'a, T>(&mut self, xs: &'a [T]) -> &'a T {
        &xs[self.below(xs.len() as u64) as usize]
    }
    pub fn shuffle<T>(&mut self, xs: &mut [T]) {
        for i in (1..xs.len()).rev() {
            let j = self.below(i as u64 + 1) as usize;
            xs.swap(i, j);
        }
    }
}

#[derive(Clone, Debug)]
pub enum J {
    Null,
    Bool(bool),
    I(i64),
    U(u64),
    F(f64),
    S(String),
    A(Vec<J>),
    O(Vec<(String, J)>),
}

impl J {
    pub fn obj() -> J {
        J::O(vec![])
    }
    pub fn set(mut self, k: &str, v: J) -> J {
        if let J::O(ref mut m) = self {
            m.push((k.to_string(), v));
        }
        self
    }
    pub fn put(&mut self, k: &str, v: J) {
        if let J::O(ref mut m) = self {
            m.push((k.to_string(), v));
        }
    }
    pub fn s(x: impl Into<String>) -> J {
        J::S(x.into())
    }
    pub fn write(&self, out: &mut String) {
        match self {
            J::Null => out.push_str("null"),
            J::Bool(b) => out.push_str(if *b { "true" } else { "false" }),
            J::I(i) => {
                let _ = write!(out, "{}", i);
            }
            J::U(u) => {
                let _ = write!(out, "{}", u);
            }
            J::F(f) => {
                if f.is_finite() {
                    let _ = write!(out, "{:?}", f);
                } else {
                    let _ = write!(out, "\"{}\"", f);
                }
            }
            J::S(s) => {
                out.push('"');
                for c in s.chars() {
                    match c {
                        '"' => out.push_str("\\\""),
                        '\\' => out.push_str("\\\\"),
                        '\n' => out.push_str("\\n"),
                        '\r' => out.push_str("\\r"),
                        '\t' => out.push_str("\\t"),
                        c if (c as u32) < 0x20 => {
                            let _ = write!(out, "\\u{:04x}", c as u32);
                        }
                        c => out.push(c),
                    }
                }
                out.push('"');
            }
            J::A(a) => {
                out.push('[');
                for (i, x) in a.iter().enumerate() {
                    if i > 0 {
                        out.push(',');
                    }
                    x.write(out);
                }
                out.push(']');
            }
            J::O(m) => {
                out.push('{');
                for (i, (k, v)) in m.iter().enumerate() {
                    if i > 0 {
                        out.push(',');
                    }
                    J::S(k.clone()).write(out);
                    out.push(':');
                    v.write(out);
                }
                out.push('}');
            }
        }
    }
    pub fn to_string(&self) -> String {
        let mut s = String::new();
        self.write(&mut s);
        s
    }
}

impl From<u64> for J {
    fn from(v: u64) -> J {
        J::U(v)
    }
}
impl From<u32> for J {
    fn from(v: u32) -> J {
        J::U(v as u64)
    }
}
impl From<usize> for J {
    fn from(v: usize) -> J {
        J::U(v as u64)
    }
}
impl From<bool> for J {
    fn from(v: bool) -> J {
        J::Bool(v)
    }
}
impl From<&str> for J {
    fn from(v: &str) -> J {
        J::S(v.to_string())
    }
}
impl From<String> for J {
    fn from(v: String) -> J {
        J::S(v)
    }
}

/// 64-bit FNV-1a, used for case / byte digests (not cryptographic; collisions
/// only make "distinct" counts conservative or a digest comparison weaker).
#[derive(Clone, Copy)]
pub struct Fnv(pub u64, pub u64);
impl Fnv {
    pub fn new() -> Self {
        Fnv(0xcbf2_9ce4_8422_2325, 0x84222325cbf29ce4)
    }
    pub fn bytes(&mut self, b: &[u8]) {
        for &x in b {
            self.0 ^= x as u64;
            self.0 = self.0.wrapping_mul(0x100_0000_01b3);
            self.1 = (self.1 ^ (x as u64)).wrapping_mul(0x9E37_79B9_7F4A_7C15).rotate_left(23);
        }
    }
    pub fn u64(&mut self, v: u64) {
        self.bytes(&v.to_le_bytes());
    }
    pub fn str(&mut self, s: &str) {
        self.bytes(s.as_bytes());
        self.bytes(&[0xff]);
    }
    pub fn hex(&self) -> String {
        format!("{:016x}{:016x}", self.0, self.1)
    }
}

pub fn digest(b: &[u8]) -> String {
    let mut f = Fnv::new();
    f.bytes(b);
    f.hex()
}
