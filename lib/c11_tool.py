"""C11 (writer tools): bedgraphtobigwig / bedtobigbed output bytes must not depend on -t.

One case = one generated multi-chromosome input (the C16 generators) and one option vector (compression, block size,
items per slot, zoom options, single/two pass, in-memory, parallel mode, sort mode) drawn once; the tool is run with
that same vector at -t 1, at the vector's own thread count and at two more counts drawn from 2..16.  Oracle: every
run that succeeds produces byte-identical files (sha-256), and success itself does not depend on -t.  What the bytes
*are* is C01/C02/C09's business; whether the records round-trip is C16's.
Standard input is not used here (a second run could not re-read it) and `--parallel yes` cases whose serial run
succeeds but whose parallel run refuses the input are C16/C18's finding (`parallel_refuses_sorted_input`), recorded
here as blocked.
"""
import hashlib
import os
import random

import clitext as ct
import c16
import props
import pyleg

KIND = "c11tool"
N_CASES = {"quick": 400, "thorough": 6000}


def _case(c, seed, tier, index, cwd):
    rng = random.Random("c11tool:%s:%s" % (seed, index))
    kind = "bedgraph" if index % 2 == 0 else "bed"
    inp = c16.gen_input(rng, kind, tier)
    o = c16.gen_opts(rng, kind, inp)
    o["stdin"] = None
    # non-default format options more often than C16 draws them: they are what a thread-count special case can lose
    if rng.random() < 0.5 and not o["unc"]:
        o["unc"] = rng.choice(["--uncompressed", "-u"])
    if rng.random() < 0.5 and o["block_size"] is None:
        o["block_size"] = rng.choice([2, 4, 64])
    if rng.random() < 0.5 and not o["zooms"]:
        o["zooms"] = ["zooms", rng.choice([[10], [10, 100], [500, 20000]]), "--zooms="]
    in_name = "in.bedGraph" if kind == "bedgraph" else "in.bed"
    ext = ".bw" if kind == "bedgraph" else ".bb"
    ct.write(cwd, in_name, inp["text"])
    ct.write(cwd, "chrom.sizes", inp["sizes_text"])
    if kind == "bed" and o.get("autosql"):
        ct.write(cwd, "fields.as", c16._autosql(inp["ncol"]))
    tool = c16.FWD_TOOL[kind]
    own = o["t"]
    counts = [1]
    if own not in (None, 1):
        counts.append(own)
    while len(counts) < 4:
        t = rng.randint(2, 16)
        if t not in counts:
            counts.append(t)
    c.opts = {k: v for k, v in o.items() if k not in ("back", "back_restricted", "t")}
    c.desc = dict(kind=kind, tool=tool, opts=c.opts, thread_counts=counts,
                  input=dict(chroms=inp["per_chrom"], features=inp["feats"], text_head=inp["text"][:300]))
    c.hash = ct.sha(inp["text"], inp["sizes_text"], c.opts)
    c.nontrivial = len(inp["names"]) >= 2 and len(inp["records"]) >= 3
    c.tag("kind:" + kind, "parallel=%s" % (o["parallel"] or "default"), "single-pass" if o["single_pass"] else "two-pass")
    for k in ("unc", "block_size", "items_per_slot", "zooms", "inmemory"):
        if o.get(k):
            c.tag("option:" + k)

    def detail(**kw):
        d = dict(commands=list(c.log), cwd_files={in_name: ct.trunc(inp["text"]), "chrom.sizes": ct.trunc(inp["sizes_text"], 600)},
                 note="run the commands in a directory holding these files")
        d.update(kw)
        return d

    results = {}
    for t in counts:
        o2 = dict(o)
        o2["t"] = t
        out = "out_t%d%s" % (t, ext)
        argv, _ = c16.fwd_argv(cwd, kind, o2, in_name, out)
        r = ct.run(argv, cwd)
        if not c.ran(r, tool):
            return
        c.tag("-t=%d" % t)
        c.count("writer_runs")
        if r.panicked():
            c.viol("panic", tool, detail(threads=t, stderr=r.err[:800], rc=r.rc))
            return
        ok = r.rc == 0 and ct.exists(cwd, out) and os.path.getsize(os.path.join(cwd, out)) > 0
        results[t] = (ok, hashlib.sha256(ct.read(cwd, out)).hexdigest() if ok else None, r.rc, r.err[:300])
    oks = [t for t in counts if results[t][0]]
    if not oks:
        c.blocked = "C16"
        c.notes.append("no thread count converted the input (rc %s): %s" % (results[counts[0]][2], results[counts[0]][3][:200]))
        return
    if len(oks) != len(counts):
        bad = [t for t in counts if not results[t][0]]
        if (o["parallel"] == "yes") and 1 in oks and all(t != 1 for t in bad):
            c.blocked = "C16"
            c.notes.append("the per-chromosome-parallel path refused what -t 1 converts: %s" % results[bad[0]][3][:200])
            return
        c.viol("success_depends_on_thread_count", tool, detail(succeeded=oks, failed=bad, stderr=results[bad[0]][3]))
        return
    ref = results[oks[0]][1]
    differ = [t for t in oks if results[t][1] != ref]
    c.count("byte_comparisons", len(oks) - 1)
    if differ:
        a = ct.read(cwd, "out_t%d%s" % (oks[0], ext))
        b = ct.read(cwd, "out_t%d%s" % (differ[0], ext))
        first = next((i for i in range(min(len(a), len(b))) if a[i] != b[i]), min(len(a), len(b)))
        where = "header" if first < 64 else ("zoom_headers" if first < 304 else "body")
        c.viol("writer_output_bytes_differ_between_thread_counts", "%s:%s" % (tool, where),
               detail(threads=[oks[0], differ[0]], sizes=[len(a), len(b)], first_differing_byte=first))


def _mk_leg(name, parity, n, seed, tier, scratch):
    def run(leg_dict):
        leg = pyleg.PyLeg(name, cmd=KIND, seed=seed, tier=tier)
        ct.run_cases(leg, _case, [i for i in range(n) if i % 2 == parity], seed, tier, os.path.join(scratch, name), KIND)
        return leg.done(extra=dict(notes=leg.res.notes))
    return {"name": name, "run": run}


def legs(tier, seed, scratch):
    n = N_CASES.get(tier, N_CASES["quick"])
    return [_mk_leg("c11-bedgraphtobigwig-thread-counts", 0, n, seed, tier, scratch), _mk_leg("c11-bedtobigbed-thread-counts", 1, n, seed, tier, scratch)]


def replay(j, scratch):
    return ct.replay_case(_case, j, os.path.join(scratch, "replay"))


props.REPLAYERS[KIND] = replay
