"""Sanitizer / interpreter legs: Miri on the reduced TempFileBuffer workload, ThreadSanitizer and
valgrind memcheck on harness subcommands."""
import os
import re
import shutil
import subprocess
import time

import build
import pyleg
import runner

MIRI_TARGET = "/verif/target/miri"
TSAN_TARGET = "/verif/target/tsan"
TSAN_BIN = TSAN_TARGET + "/x86_64-unknown-linux-gnu/release/bvh"


def _sync_lock(crate_dir):
    dst = crate_dir + "/Cargo.lock"
    src = "/repo/Cargo.lock"
    saved = crate_dir + "/.repo.lock.copy"
    import filecmp
    if not os.path.exists(dst) or not os.path.exists(saved) or not filecmp.cmp(src, saved, shallow=False):
        shutil.copyfile(src, dst)
        shutil.copyfile(src, saved)


def _first_repo_frame(text):
    for m in re.finditer(r"(/repo/bigtools/src/[\w/\.]+:\d+|crossbeam[\w\-\./]*src/[\w/\.]+:\d+)", text):
        s = m.group(1)
        s = s.split("bigtools/src/")[-1] if "bigtools/src/" in s else s.split("/")[-1]
        return re.sub(r":\d+$", "", s)
    return "unknown_frame"


def miri_c12_leg(tier, seed, scratch):
    def run(leg):
        L = pyleg.PyLeg("c12-miri", cmd="miri_c12", seed=seed, tier=tier)
        crate = "/verif/miri_c12"
        _sync_lock(crate)
        nseeds = 8 if tier == "quick" else 48
        first = (seed * 1000) % 1000000
        # (the 70 000-byte writes of --heavy take ~1 min per seed under Miri: not used by the registered tiers)
        args = ["--tempfile"]
        env = dict(os.environ)
        env.update({
            "RUSTFLAGS": build.GUARD,
            "MIRIFLAGS": "-Zmiri-disable-isolation -Zmiri-many-seeds=%d..%d" % (first, first + nseeds),
            "CARGO_TARGET_DIR": MIRI_TARGET,
            "CARGO_NET_OFFLINE": "true",
        })
        t0 = time.time()
        try:
            p = subprocess.run(["cargo", "+nightly", "miri", "run", "--offline", "--quiet", "--"] + args, cwd=crate, env=env,
                               stdout=subprocess.PIPE, stderr=subprocess.STDOUT, text=True, timeout=900 if tier == "quick" else 3000)
        except subprocess.TimeoutExpired:
            L.case(dict(tool="miri", seeds=[first, first + nseeds]), hash="miri-timeout", inconclusive="miri run timed out")
            return L.done()
        out = p.stdout
        ok = len(re.findall(r"MIRI_C12_OK runs=(\d+)", out))
        runs = sum(int(x) for x in re.findall(r"MIRI_C12_OK runs=(\d+)", out))
        failing = re.findall(r"FAILING SEED: (\d+)", out)
        if "could not compile" in out or ("error" in out and ok == 0 and not failing and "Undefined Behavior" not in out and "deadlock" not in out and "Data race" not in out):
            raise build.BuildError("miri_c12 did not build/run:\n" + "\n".join(out.splitlines()[-30:]))
        for i in range(ok):
            L.case(dict(tool="miri", workload="threaded TempFileBuffer, 72+ producer/consumer programs per seed", seed_index=i), hash="miri-seed-ok-%d" % i, nontrivial=True, tags=["miri_seed_passed"], counts={"miri_producer_consumer_runs": runs // max(ok, 1)})
        if failing:
            if "Data race detected" in out:
                cls = "miri_data_race"
            elif "deadlock" in out:
                cls = "miri_deadlock"
            elif "Undefined Behavior" in out:
                cls = "miri_undefined_behavior"
            elif "panicked" in out:
                cls = "miri_assertion_failed"
            else:
                cls = "miri_error"
            site = _first_repo_frame(out)
            m = re.search(r"panicked at [^\n]*\n([^\n]*)", out)
            if cls == "miri_assertion_failed" and m:
                site = re.sub(r"[^a-z_ ]", "", m.group(1).lower()).strip().replace(" ", "_")[:60]
            L.case(dict(tool="miri", failing_seeds=failing[:8]), hash="miri-fail", nontrivial=True,
                   violations=[(cls, site, dict(failing_seeds=failing[:16], output_tail="\n".join(out.splitlines()[-60:])[:6000], rerun="cd /verif/miri_c12 && RUSTFLAGS='--cfg bigtools_verif' MIRIFLAGS='-Zmiri-disable-isolation -Zmiri-seed=%s' cargo +nightly miri run --offline -- %s" % (failing[0], " ".join(args))))])
        elif ok < nseeds:
            L.case(dict(tool="miri", ok=ok, wanted=nseeds), hash="miri-short", inconclusive="only %d of %d seeds reported OK: %s" % (ok, nseeds, out[-400:]))
        return L.done(dict(miri_seeds_passed=ok, miri_wall_s=round(time.time() - t0, 1)))
    return dict(name="c12-miri", run=run)


def build_tsan():
    build.sync_lock()
    env = dict(os.environ)
    env.update({"RUSTFLAGS": build.GUARD + " -Zsanitizer=thread", "CARGO_TARGET_DIR": TSAN_TARGET, "CARGO_NET_OFFLINE": "true"})
    p = subprocess.run(["cargo", "+nightly", "build", "--offline", "--quiet", "-Zbuild-std", "--target", "x86_64-unknown-linux-gnu", "--release"],
                       cwd="/verif/harness", env=env, stdout=subprocess.PIPE, stderr=subprocess.STDOUT, text=True, timeout=2400)
    if p.returncode != 0:
        raise build.BuildError("TSan harness build failed:\n" + "\n".join(p.stdout.splitlines()[-30:]))


def tsan_leg(name, cmd, cases, tier, seed, scratch, shards=8):
    """Run a harness subcommand in the ThreadSanitizer build (sanitizer mode: hooks only delay)."""
    def run(leg):
        L = pyleg.PyLeg(name, cmd=cmd, seed=seed, tier=tier)
        build_tsan()
        procs = []
        for s in range(shards):
            err = open("%s/tsan_%s_%d.err" % (scratch, cmd, s), "w")
            env = dict(os.environ)
            env.update({"BVH_SANITIZER_MODE": "1", "TSAN_OPTIONS": "halt_on_error=0 exitcode=0 second_deadlock_stack=1", "RUST_BACKTRACE": "0"})
            p = subprocess.Popen([TSAN_BIN, cmd, "--seed", str(seed), "--cases", str(cases), "--shard", "%d/%d" % (s, shards), "--tier", tier, "--scratch", scratch],
                                 stdout=subprocess.PIPE, stderr=err, env=env, text=True)
            procs.append((p, err))
        ended = 0
        viol_lines = []
        for s, (p, err) in enumerate(procs):
            try:
                out, _ = p.communicate(timeout=1800)
            except subprocess.TimeoutExpired:
                p.kill()
                out = ""
                L.case(dict(tool="tsan", shard=s), hash="tsan-timeout-%d" % s, inconclusive="TSan shard timed out")
            err.close()
            for line in out.splitlines():
                if '"ev":"end"' in line:
                    ended += 1
                    if '"status":"violated"' in line:
                        viol_lines.append(line[:1500])
        reports = []
        for s in range(shards):
            pth = "%s/tsan_%s_%d.err" % (scratch, cmd, s)
            txt = open(pth, errors="replace").read()
            os.remove(pth)
            blocks = txt.split("WARNING: ThreadSanitizer:")[1:]
            reports += blocks
        sigs = {}
        for b in reports:
            kind = b.strip().split("(")[0].strip().replace(" ", "_")[:40]
            frame = _first_repo_frame(b)
            has_bt = "bigtools" in b
            sigs.setdefault((kind, frame, has_bt), b[:3000])
        L.case(dict(tool="tsan", cmd=cmd, cases=cases, shards=shards), hash="tsan-%s" % cmd, nontrivial=ended >= 2,
               counts={"tsan_cases_executed": ended, "tsan_reports": len(reports)},
               violations=[("tsan_" + k, f, dict(report=txt)) for (k, f, has_bt), txt in sigs.items() if has_bt] +
                          ([("behavioural_violation_under_tsan_build", cmd, dict(lines=viol_lines[:3]))] if viol_lines else []))
        if ended > 1:
            L.res.evaluations += ended - 1
            if not L.res.violations:
                L.res.held += ended - 1
        for (k, f, has_bt), txt in sigs.items():
            if not has_bt:
                L.res.notes.append(dict(tsan_report_without_bigtools_frame=k, first=txt[:600]))
        return L.done(dict(tsan_cases_executed=ended, tsan_reports=len(reports)))
    return dict(name=name, run=run)


def memcheck_c10_leg(tier, seed, scratch, nfiles=240):
    """valgrind memcheck over the readq workload on independently encoded files (libdeflate FFI is reached with
    buffer sizes taken from header fields). Supporting evidence: bigtools has no `unsafe`."""
    def run(leg):
        import c10
        import hashlib
        import sys
        sys.path.insert(0, "/verif")
        from pybbi import encode as E
        L = pyleg.PyLeg("c10-memcheck", cmd="c10mem", seed=seed, tier=tier)
        qlines = []
        paths = []
        for index in range(nfiles):
            content, layout = c10.make_case(seed + 7919, index)
            data, model = E.encode_with_model(content, layout)
            path = os.path.join(scratch, "c10m_%d.%s" % (index, "bw" if content["kind"] == "bigwig" else "bb"))
            open(path, "wb").write(data)
            paths.append(path)
            qlines.append("FILE\t" + path)
            for op in c10.make_queries(content, layout, model, seed + 7919, index):
                qlines.append("\t".join(str(x) for x in op))
        qpath = os.path.join(scratch, "c10m_q.txt")
        open(qpath, "w", encoding="utf-8").write("\n".join(qlines) + "\n")
        t0 = time.time()
        try:
            p = subprocess.run(["valgrind", "-q", "--error-exitcode=9", "--leak-check=no", runner.HARNESS_BIN["release"], "readq", "--arg", qpath],
                               stdout=subprocess.PIPE, stderr=subprocess.PIPE, text=True, errors="replace", timeout=2400, env=dict(os.environ, RUST_BACKTRACE="0"))
        except subprocess.TimeoutExpired:
            L.case(dict(tool="valgrind memcheck", files=nfiles), hash="memcheck-timeout", inconclusive="valgrind run timed out")
            return L.done()
        finally:
            for f in paths + [qpath]:
                try:
                    os.unlink(f)
                except OSError:
                    pass
        answers = sum(1 for l in p.stdout.splitlines() if '"op"' in l)
        blocks = [b for b in re.split(r"\n(?===\d+== \S)", p.stderr) if re.search(r"==\d+== (Invalid|Conditional|Use of uninit|Syscall param|Mismatched|Source and dest)", b)]
        sigs = {}
        for b in blocks:
            kind = re.search(r"==\d+== ([A-Z][^\n]{0,60})", b).group(1).split(" of size")[0].strip().replace(" ", "_")[:40]
            fr = re.search(r"(bigtools::[\w:]+|libdeflate\w*)", b)
            sigs.setdefault((kind, fr.group(1)[:60] if fr else "no_bigtools_frame"), b[:2500])
        L.case(dict(tool="valgrind memcheck", workload="readq over %d independently encoded files" % nfiles), hash="memcheck-%d" % seed, nontrivial=answers >= 2,
               counts={"memcheck_answers_produced": answers, "memcheck_error_blocks": len(blocks)},
               violations=[("memcheck_" + k, f, dict(report=t)) for (k, f), t in sigs.items()])
        if answers > 1:
            L.res.evaluations += answers - 1
            if not L.res.violations:
                L.res.held += answers - 1
        return L.done(dict(memcheck_wall_s=round(time.time() - t0, 1), memcheck_rc=p.returncode))
    return dict(name="c10-memcheck", run=run)
