"""Per-property configuration of the checks (legs, case counts, evidence text)."""

REPLAYERS = {}


def _q(tier, quick, thorough):
    return quick if tier == "quick" else thorough


def _c05_count(tier):
    import subprocess
    return int(subprocess.run(["/verif/target/hooks/release/bvh", "c05-count", "--tier", tier], capture_output=True, text=True).stdout.strip())


def _count(cmd, tier):
    import subprocess
    return int(subprocess.run(["/verif/target/hooks/release/bvh", cmd, "--tier", tier], capture_output=True, text=True).stdout.strip())


def _san():
    import sanitizers
    return sanitizers


def _legs_simple(cmd, quick, thorough, **kw):
    def f(tier, seed, scratch):
        leg = dict(cmd=cmd, cases=_q(tier, quick, thorough), name=cmd)
        leg.update(kw)
        return [leg]
    return f


GEN_NOTE = (
    "Inputs come from the seeded structured generators in harness/src/gen.rs (chromosome pool stressing byte "
    "order / key padding, sizes 50..6000 plus occasional sizes up to u32::MAX populated sparsely; layouts with gaps "
    "and lengths drawn relative to the zoom resolutions in force; zero-length items; items at 0 and at the chromosome "
    "end) crossed with random option vectors (compress, items_per_slot in {1,2,3,5,16,1024}, block_size in "
    "{2,3,4,5,16,256}, auto/manual zooms, inmemory, channel_size in {0,1,100}, current-thread or 1..16 workers, "
    "single/two pass, iterator / text-file / parallel source, sort type ALL/START). "
)

PROPS = {
    "C01": dict(
        require_observed=['multi_section', 'zero_length', 'at_chrom_end', 'huge_chrom', 'ips_65535', 'chroms_gt_256', 'heavy_chromosomes'],
        level="exploration",
        floor=50,
        builds=["harness"],
        legs=_legs_simple("c01", 10000, 300000),
        rule=GEN_NOTE + "A case is one (input, options) pair written through BigWigWrite into an in-memory sink and read "
        "back with get_interval(chrom,0,size) per chromosome plus chroms(); values compared by to_bits, order "
        "included. Non-trivial = >=2 chromosomes, or a chromosome spanning >=2 sections, or a zero-length / "
        "chromosome-end item present; distinct by hash of (input, options). Case 0 is the 65535-items-per-slot "
        "boundary file (70000 items).",
        assumptions=[
            "the in-memory sink behaves like a file (Write+Seek semantics of std::io::Cursor, sparse seeks zero-fill)",
            "cases blocked by a C18 failure of the parallel source are counted as blocked, not held",
        ],
    ),
    "C02": dict(
        level="exploration",
        floor=50,
        builds=["harness"],
        legs=_legs_simple("c02", 10000, 300000),
        rule=GEN_NOTE + "bigBed layouts: disjoint / overlapping / nested / duplicate / zero-length / long-then-short, rest "
        "fields with 0..20 tab-separated UTF-8 columns. A case writes through BigBedWrite (autosql none / generated / "
        "custom) and reads back get_interval(chrom,0,max(size,max end)), item_count(), autosql(), chroms(); entries "
        "compared as sequences. Non-trivial = >=2 chromosomes, >=2 sections, overlaps or zero-length present.",
        assumptions=["same sink assumption as C01"],
    ),
    "C03": dict(
        require_observed=['cached_queries_served_without_underlying_reads', 'cache_reset_hits', 'cache_reset_misses', 'empty_range_queries', 'values_calls'],
        level="exploration",
        floor=50,
        builds=["harness"],
        legs=lambda tier, seed, scratch: [
            dict(cmd="c03", name="c03", cases=_q(tier, 3000, 150000)),
            dict(cmd="c03r", name="c03-concurrent-reopened-readers", cases=_q(tier, 96, 4000), stall_s=60),
        ],
        rule=GEN_NOTE + "items_per_slot in {1,2,3,5}, block_size in {2,3,4} so ranges cross blocks and index nodes. Per case one "
        "file and a history of 120 (quick) / 300 (thorough) queries against one plain reader, one caching reader, one "
        "reopened reader (and 1 in 8 times a ReopenableFile on disk): ends drawn from the boundary set {0, len, a, b, "
        "a+-1, b+-1 of every stored value, section firsts/lasts} (4 of 5) or uniformly; 1 in 12 empty ranges; 1 in 5 "
        "repeats of an earlier query; zoom queries as state disturbers; values() on half of them; get_interval_move 1 "
        "in 10. Oracle: filter-and-clip model with max(a,s) < min(b,e); stored zero-length values are a don't-care for "
        "membership but may only appear inside [s,e]; values() bitwise vs NaN-filled model; all readers identical. "
        "Case 0 is the 5000-entry block-cache reset scenario (5300 one-item blocks, each touched once, first 400 again, "
        "then every 7th backwards); cache hits are observed as queries served with zero underlying reads. "
        "Non-trivial = some chromosome spans >= 2 sections; distinct by hash of (file, query history). "
        "Second leg: the file is put on disk, opened with BigWigRead::open_file (ReopenableFile, the tools' own Reopen "
        "implementation) and 2/4/8 reopened readers (every second one caching) are queried from as many threads at "
        "once, 150 random ranges each, every answer judged by the same model: reopened readers must be independent of "
        "each other's seeks and reads.",
        assumptions=["writer correctness is C01's business: a failed write is counted as blocked", "the concurrent leg samples OS schedules; it cannot enumerate them"],
    ),
    "C04": dict(
        require_observed=['cached_queries_served_without_underlying_reads', 'block_max_end_not_last', 'block_max_end_not_last_and_block_not_last_child'],
        level="exploration",
        floor=50,
        builds=["harness"],
        legs=_legs_simple("c04", 4000, 200000),
        rule=GEN_NOTE + "bigBed layouts incl. 'one very long entry followed by many short ones', items_per_slot in {1,2,3,5}, "
        "block_size in {2,3,4}. Per case a history of 120/300 queries (0 <= s < e, ends from the boundary set incl. "
        "midpoints of entries) on plain, caching and reopened readers, repeats and get_interval_move as in C03. Oracle "
        "(three-valued per entry): must be returned if max(a,s) < min(b,e); must not if b < s or a > e; otherwise may; "
        "returned entries must be a subsequence of the stored order. The tags count how many cases contained a block "
        "whose largest end is not its last entry's (and whose block is not the last child of its node).",
        assumptions=["writer correctness is C02's business: a failed write is counted as blocked", "no entry (0,0) is generated (C02's finding)"],
    ),
    "C05": dict(
        require_observed=['levels=1', 'levels=2', 'levels=3', 'levels=4', 'last_node_partial', 'last_nodes_full', 'queries'],
        level="exploration",
        exhaustive=True,
        floor=50,
        builds=["harness"],
        legs=lambda tier, seed, scratch: [dict(cmd="c05", name="c05", cases=_c05_count(tier), stall_s=120)],
        rule="Exhaustive enumeration, independent of the seed: every n in 1..40 (quick) / 1..90 (thorough) data blocks x every "
        "fan-out b in 2..5 / 2..9, as one chromosome and as three chromosomes (all compositions of n into three parts "
        "for n <= 9, thirds and (1,n-2,1) above), items_per_slot = 1 so blocks = items [10i,10i+5), manual zoom 5 so "
        "the zoom index has the same n-block shape, alternating compression and pass mode. For every file every query "
        "whose ends lie in {0, len} + {start-1,start,start+1,end-1,end,end+1 of every block} (thinned deterministically "
        "above 120 points but keeping every point as a start and as an end): (a) get_interval == filter over all items; "
        "(b) the blocks the reader actually fetched (observed through a logging Read+Seek) == the leaves of a linear "
        "scan whose span touches the query, in file order; (c) the independent walker's pruned descent of the written "
        "tree == its linear scan (node spans contain their subtrees, child offsets land on nodes); (d) the same for the "
        "zoom index via get_zoom_interval; (e) tree depth = ceil(log_b n) and leaves contiguous in file order. "
        "Non-trivial = n >= 2; tags give the (levels, last-node fill) histogram.",
        assumptions=["libdeflater is trusted to inflate blocks for the walker"],
    ),
    "C06": dict(
        level="exploration",
        floor=50,
        builds=["harness", "cli"],
        legs=lambda tier, seed, scratch: [dict(cmd="c06", name="c06", cases=_q(tier, 6000, 300000))] + __import__("c06_tool").legs(tier, seed, scratch),
        rule=GEN_NOTE + "Even cases are bigWigs, odd cases bigBeds (overlapping / nested / identical / zero-length entries), single "
        "and two pass. Oracle: get_summary() vs per-base statistics of the input (bigBed: of the depth array, covered "
        "bases only): bases_covered exact, min/max exact, sum/sumsq exact for the exact-arithmetic value class and "
        "within 4*n*eps*sum|term| otherwise; total_items = number of sections (bigWig: sum of ceil(n_c/items_per_slot)) "
        "or entries (bigBed, also via item_count()). Don't-care: min/max when a zero-length item could take part in "
        "them. Second leg: bedgraphtobigwig / bedtobigbed then bigwiginfo / bigbedinfo on 60 (quick) / 800 (thorough) "
        "generated texts; printed basesCovered, mean, min, max, std (and itemCount) vs a Python per-base model.",
        assumptions=["writer/reader round trip is C01/C02's business: a failed write is counted as blocked"],
    ),
    "C09": dict(
        level="exploration",
        floor=50,
        builds=["harness"],
        legs=lambda tier, seed, scratch: __import__("c09").legs(tier, seed, scratch),
        rule=GEN_NOTE + "Even cases bigWig, odd cases bigBed (no entry (0,0): C02's finding). The harness only emits the sink bytes "
        "plus a sidecar with exactly what went in; the oracle is pybbi/decode.py, an independent decoder written from the "
        "published layout with struct + zlib only (calibrated on the UCSC-written pybigtools/tests/data/bigBedExample.bb): "
        "header/zoom directory/autoSql/summary/dataCount consistency, chromosome B+ tree, every R-tree (magic, bounds "
        "contain all leaves, every node reachable once, count <= blockSize, every non-leaf span contains its subtree, "
        "leaves contiguous in file order), every block a zlib stream <= uncompressBufSize with <= itemsPerSlot items of "
        "one chromosome and a leaf span containing its items, decoded records == sidecar input bit for bit, total summary "
        "and every zoom record == statistics recomputed by the decoder from the decoded records, trailing magic. "
        "Non-trivial = >= 2 data blocks or >= 1 zoom level; distinct by file hash.",
        assumptions=[
            "absence of the u32 count at zoom dataOffset and endFileOffset = index offset are notes, not problems (no reader uses them)",
            "chromosome-tree key order is only demanded when the input was written with sort type ALL",
            "zlib (CPython) is the reference inflater",
        ],
        technique="runtime monitoring: independent decoder as oracle over generated writer output",
    ),
    "C10": dict(
        level="exploration",
        floor=50,
        builds=["harness"],
        legs=lambda tier, seed, scratch: __import__("c10").legs(tier, seed, scratch) + ([_san().memcheck_c10_leg(tier, seed, scratch)] if tier != "quick" else []),
        rule="Files come from pybbi/encode.py (independent encoder, cross-checked encode->decode = identity) over the cross "
        "product {little, big endian} x {zlib levels, raw} x {bigWig section types 1/2/3 mixed, bigBed} x chromosome-tree "
        "block sizes {1,2,3,256} (1-4 levels) x R-tree fan-out {2,3,5,256} (depth 1-8) x node placement {level order, "
        "reverse, children first, shuffled, a non-leaf node as the last bytes before the trailing magic} x version 1..4 "
        "(v1 without summary) x 0-3 zoom levels x zoom blocks {per chromosome, packed across chromosome boundaries as "
        "UCSC writes them}. The harness subcommand readq executes CHROMS / INFO / SUMMARY / "
        "INTERVAL / VALUES / ZOOM / AUTOSQL / ITEMCOUNT on BigWigRead/BigBedRead plain, .cached(), GenericBBIRead, and on "
        "one .cached() reader kept across all ops of the file (answers must not depend on the query history); the "
        "answers are compared with the encoder's abstract content model (not with a re-decode) and across flavours. "
        "Non-trivial = R-tree depth >= 2 or chromosome tree >= 2 levels or big-endian; tags give the layout cells seen. "
        "Thorough adds the same readq workload on 240 files under valgrind memcheck (the libdeflate FFI is reached with "
        "buffer sizes taken from header fields); any memcheck error block is a violation.",
        assumptions=["only well-formed files are in scope (uncompressBufSize >= every block, valSize 8)"],
        technique="runtime monitoring: independent encoder + content-model oracle over reader answers",
    ),
    "C11": dict(
        require_observed=['handoff:file_arrived_before_first_write', 'handoff:mid_stream_from_memory', 'handoff:mid_stream_from_temp_file', 'handoff:after_the_writer_closed', 'converter_runs', 'runs_compared'],
        level="exploration",
        floor=20,
        builds=["harness", "cli"],
        legs=lambda tier, seed, scratch: [
            dict(cmd="c11w", name="c11-writer-digests", cases=_q(tier, 128, 800), stall_s=60),
            dict(cmd="c11c", name="c11-converters", cases=_q(tier, 200, 3000), stall_s=60),
        ] + __import__("c11_tool").legs(tier, seed, scratch) + ([_san().tsan_leg("c11-tsan", "c11w", 48, tier, seed, scratch)] if tier != "quick" else []),
        rule="A case of leg c11-writer-digests is one class = (input with 4..8 chromosomes of uneven size, the first the "
        "heaviest; format options; pass mode), written 10 (quick) / 30 (thorough) times into an in-memory sink with runs "
        "that differ only in workers {current-thread,1,2,3,4,8,16}, channel_size {0,1,100}, inmemory, source {iterator, "
        "text file, index_chroms + parallel source} and the seeded delay policy installed at the cfg-hook hand-off points "
        "{none, random sleeps/yields, slow producer, slow consumer, yield-only}; all digests must equal the first run's. "
        "The hook trace (one global log, appended after the delay) gives per run the hand-off class of every chromosome "
        "{file arrived before first write | mid-stream from memory | mid-stream from temp file | after the writer "
        "closed}, an interleaving signature, and ordering-safety checks (switches in chromosome order; a chromosome "
        "takes the file only after its predecessor returned it). Legs c11-*-thread-counts: the bedgraphtobigwig / bedtobigbed "
        "binaries with one option vector (non-default compression, block size, zoom options, pass / parallel / in-memory modes) "
        "at -t 1, the vector's own count and two more from 2..16: all output files byte-identical. Leg c11-converters: write_bg / write_bed with 1..16 "
        "threads, inmemory on/off and delay policies vs write_bg_singlethreaded / write_bed_singlethreaded, byte "
        "equality. Thorough adds the same writer workload in a ThreadSanitizer build (hooks in sanitizer mode: delays "
        "only, no shared state). Non-trivial = >= 2 successful runs compared and >= 2 chromosomes; distinct by class.",
        assumptions=[
            "interleavings are sampled (delay policies, OS scheduler), not enumerated; the evidence reports the distinct signatures and hand-off classes actually observed",
            "runs whose parallel source is refused by index_chroms are skipped and counted (C18's business)",
        ],
        technique="runtime monitoring: differential digests across schedules + hook trace monitor + ThreadSanitizer",
    ),
    "C12": dict(
        require_observed=['handoff:file_arrived_before_first_write', 'handoff:mid_stream_from_memory', 'handoff:mid_stream_from_temp_file', 'handoff:after_the_writer_closed', 'consumer_programs', 'miri_producer_consumer_runs'],
        level="exploration",
        floor=50,
        builds=["harness"],
        legs=lambda tier, seed, scratch: [
            dict(cmd="c12x", name="c12-exhaustive-call-interleavings", cases=_count("c12x-count", tier), stall_s=60, retry_budget_s=30),
            dict(cmd="c12t", name="c12-threaded-stress", cases=_q(tier, 3000, 60000), stall_s=20, retry_budget_s=20),
            _san().miri_c12_leg(tier, seed, scratch),
        ] + ([_san().tsan_leg("c12-tsan", "c12t", 4000, tier, seed, scratch)] if tier != "quick" else []),
        rule="Leg 1 (exhaustive, seed-independent): every producer history of k writes with sizes from {0,1,3,4096,8192,70000} "
        "for k <= 3, reduced size sets for k = 4,5 (quick) / 4,5,6 (thorough), then drop, crossed with every consumer "
        "program at call granularity -- switch after any of the k+2 producer steps then await_real_file; or no switch, "
        "len() then expect_closed_write -- with is_real_file_ready() polled at every position, x {in-memory, temp-file} "
        "x destination {plain, BufWriter, short-writing (<= 700 bytes per call), short-writing with one EINTR after every "
        "short write}; every shared-memory access of TempFileBuffer is exactly one public call, so "
        "orderings of calls on one thread enumerate the interleavings at that granularity. Oracle: destination bytes = "
        "concatenation of the writes (self-describing payload: missing / duplicated / reordered ranges are named), "
        "len() = bytes written, readiness true iff after drop. Leg 2: producer and consumer on real threads with "
        "seeded delays at the cfg-hook points inside update/Drop/switch/await; interleaving signature and hand-off "
        "class from the trace; await must never return before the producer's drop; bounded progress is judged in the "
        "harness itself: once the producer thread has been joined the waiting call gets 10 s (it needs microseconds) "
        "before the run is a definite wait_did_not_return verdict. Every sixth case is a *race-mode* case: 400 short "
        "trials in which Drop and switch/await are released from a spin barrier with random spin offsets, so the Drop "
        "sweeps across every instant of the consumer's wait sequence (200 000 trials in quick). Leg 3: Miri (-Zmiri-many-seeds, 8 quick / 48 thorough) on a reduced threaded "
        "workload with R = BufWriter<..> as in bigtools (data races, UB, deadlock are definite verdicts). Thorough adds "
        "leg 2 in a ThreadSanitizer build. Non-trivial = at least one write; distinct by history / by interleaving "
        "signature.",
        exhaustive=False,
        assumptions=[
            "weak-memory reorderings are explored only as far as Miri's and the hardware's schedulers happen to",
            "Miri runs the in-memory and temp-file variants with isolation disabled",
        ],
        technique="runtime monitoring: exhaustive call-order enumeration + delay-injected stress with trace + Miri + ThreadSanitizer",
    ),
    "C13": dict(
        require_observed=['refused_with_error', 'valid_returned_ok', 'sink_rejected_after_refusal'],
        level="exploration",
        floor=50,
        builds=["harness", "relassert"],
        legs=lambda tier, seed, scratch: [
            dict(cmd="c13", name="c13-release", cases=_q(tier, 6000, 150000), stall_s=20),
            dict(cmd="c13", name="c13-debug-assertions", cases=_q(tier, 3000, 60000), stall_s=20, profile="relassert"),
        ],
        rule="Each case takes a valid 3..6-chromosome input (>= 3 items per chromosome) and injects exactly one violation: "
        "bigWig {out-of-order, overlapping, start > end, end > chromosome length}, bigBed {out-of-order starts, start > "
        "end, start >= chromosome length}, both {unknown chromosome, chromosomes out of order under ALL, one stray line of "
        "another chromosome inside a run (parallel source: real index or a coarse index of the main runs only), malformed line: "
        "missing / non-numeric / negative field, empty input} at the {first, middle, last} item of the {first, middle, "
        "last} chromosome, on the iterator, text-file and index_chroms+parallel sources, one- and two-pass, random "
        "option vectors; or it is a valid degenerate input {only zero-length items in the whole file / in one chromosome, "
        "a single item, items only at position 0, a generated valid input incl. zero-length items}. Oracle: invalid => "
        "Err (not Ok, not a panic) and the sink left behind is rejected by the reader or fully readable; valid => the "
        "call returns. Termination: the cfg-hook in get_rtreeindex proves divergence when a tree passes 64 levels; "
        "otherwise a 20 s quiescence watchdog with three isolated re-runs. The second leg repeats the workload in a "
        "build with debug assertions and overflow checks on (a debug_assert! firing on valid input is a panic a debug "
        "build user sees). The evidence lists the distinct (type, class, source, pass, position) cells reached.",
        assumptions=["a valid input refused with an error still satisfies this property (returns); whether the refusal is right is C01/C02's business"],
        technique="runtime monitoring: fault-class injection + result/panic/divergence monitors",
    ),
    "C14": dict(
        require_observed=['fault_runs_delivered', 'crash_points', 'crash_points_accepted_as_complete', 'faults_write', 'faults_seek', 'fault_reported_as_error'],
        level="fault_enumeration",
        floor=20,
        builds=["harness"],
        legs=_legs_simple("c14", 320, 6000, stall_s=300),
        rule="Per case one small input (<= 4 chromosomes, <= 12 items each, bigWig on even and bigBed on odd cases; compression, "
        "items_per_slot, block_size, zooms, inmemory, channel_size, one/two pass random) written into a recording sink "
        "that logs every write/seek/flush reaching it, once on the deterministic current-thread runtime and once on the "
        "generated multi-thread configuration (the operation stream is schedule dependent); two cases in sixteen are "
        "the bulk class (one chromosome, 12 000 items, manual zooms 40/160/640, so that data and two zoom levels each exceed "
        "any 8 KiB buffer and staged copies reach the sink as direct writes). Crash points: for EVERY "
        "prefix k of the log the image produced by the first k operations is opened; it must be rejected (error or "
        "panic anywhere) or serve chromosome table, every record and every advertised zoom level exactly as the "
        "complete file does. Faults: for EVERY operation index k (plus a margin of 3) one run with the k-th operation "
        "failing (io::ErrorKind::Other) and one with every operation from k on failing (quick: every third k); the "
        "call must not return Ok (Err or panic both count) and must terminate. Violations are keyed on the kind of the "
        "failed operation and the logical region of the file it touched (header / summary / data / chrom_tree / index / "
        "zoom_data / zoom_index / trailing_magic), not on the raw k. Non-trivial = every case; the evidence counts "
        "crash points, accepted prefixes, delivered faults per kind.",
        exhaustive=False,
        assumptions=[
            "crash points are prefixes of the operation stream at the sink; torn writes inside one operation and file-system reordering are out of reach",
            "a reader panic on a truncated image counts as rejection",
        ],
        technique="runtime monitoring: recording / fault-injecting sink, exhaustive over operation indices per input",
    ),
    "C15": dict(
        require_observed=['value_crosses_window_boundary', 'cancelling_or_explicit_zero', 'starts_at_base_0', 'merge_into_pairs'],
        level="exploration",
        floor=50,
        builds=["harness", "cli"],
        legs=lambda tier, seed, scratch: [
            dict(cmd="c15m", name="c15-merge-library", cases=_q(tier, 1500, 100000), stall_s=60),
            dict(cmd="c15f", name="c15-merge_into-and-fill", cases=_q(tier, 2000, 100000)),
        ] + __import__("c15_tool").legs(tier, seed, scratch),
        rule="Leg 1: merge_sections_many on 1..6 generated streams over a span of 49999..260000 bases (values starting at "
        "base 0, crossing / ending on / starting on the 50000-base work-window boundaries, a value spanning three "
        "windows, gaps longer than a window, the negated copy of another stream, explicit 0.0 values, empty streams, "
        "very different lengths); values are small dyadics (in one case of five scaled by 2^-64: tiny magnitudes with "
        "exact sums) so every summation order is exact; oracle = per-base f64 "
        "sum array: output sorted, positive-length, non-overlapping, bit-equal value at every base with a non-zero sum, "
        "absent elsewhere; the first disagreement is classified by position (base 0 / at a window boundary / inside). "
        "Leg 2: merge_into on ALL overlapping pairs of a 0..8 grid (case 0) and fill / fill_start_to_end on generated "
        "streams (gapless, originals unchanged and in order, only zeros added, padding exact). Leg 3: the bigwigmerge "
        "binary on 1..5 bigWigs written by bedgraphtobigwig: -b / -l / UCSC spelling, output names .bw .bigWig .bedGraph "
        "/ --output-type, clip / adjust / threshold grids; per-base oracle v = min(clip, sum) + adjust kept iff v > "
        "threshold for every base with a non-zero sum, bedGraph and bigWig outputs describe the same function, a "
        "documented output name must produce the output, an all-filtered merge must terminate without a panic.",
        assumptions=["bases whose merged sum is 0 are a don't-care once adjust is non-zero", "inputs of the tool leg are read back first; a failure there is blocked on C16"],
        technique="runtime monitoring: per-base reference model over library streams and tool output",
    ),
    "C16": dict(
        level="exploration",
        floor=50,
        builds=["harness", "cli"],
        legs=lambda tier, seed, scratch: __import__("c16").legs(tier, seed, scratch),
        rule="The built binaries end to end (bedGraph -> bedgraphtobigwig -> bigwigtobedgraph; BED -> bedtobigbed -> bigbedtobed) on "
        "canonical multi-chromosome texts (2..6 bytewise-sorted chromosomes, no zero-length intervals, 0..9 extra BED "
        "columns incl. UTF-8, a single-line last chromosome in ~25%, a run whose first line is much longer in ~22%, with "
        "and without final newline, shuffled chrom.sizes with unused chromosomes) over the flag matrix -t {1,2,4,16}, "
        "--parallel {auto,yes,no}, --single-pass, --inmemory, --uncompressed/-unc, --block-size/-blockSize=, "
        "--items-per-slot, --zooms/--nzooms, --autosql/-as=, stdin spellings, bigtools <sub> and symlink-named multicall, "
        "options before/after positionals; restricted outputs (--chrom/--start/--end and -chrom= ...) in 65% of cases. "
        "Oracle (Python, text level): same records in the same order, values equal after float32 parse, extra columns "
        "byte-identical; restricted bigWig output = clipped range query; restricted bigBed output = must / may / "
        "must-not sets; --parallel yes on a sorted file must convert. One case = one conversion pipeline; tags are the "
        "flags used.",
        assumptions=["text is compared after float32 parse of values (the tools print shortest round-trip digits)"],
        technique="runtime monitoring: end-to-end differential text oracle over the flag matrix",
    ),
    "C17": dict(
        level="exploration",
        floor=50,
        builds=["harness", "cli"],
        legs=lambda tier, seed, scratch: [dict(cmd="c17l", name="c17-library", cases=_q(tier, 2000, 150000))] + __import__("c17_tool").legs(tier, seed, scratch),
        rule="Leg 1 (library): stats_for_bed_item on C01-style files (small slots) for 1..40 regions per file with ends drawn from "
        "{0, len, value starts/ends +-3, midpoints} (inside / straddling / between / outside data) vs per-base model "
        "(size, bases, sum, mean0, mean, min, max; NaN mean/min/max when nothing is covered; exact for the exact-"
        "arithmetic value class, 1e-9 relative otherwise); name_for_bed_item for every column index up to 5 past the "
        "end (must never panic; out of range = error) and interval names; bigwig_average_over_bed over the same "
        "regions as text: one row per input row in input order. Leg 2/3 (tools): bigwigaverageoverbed with -t "
        "1, 16 and four counts drawn per case from 2..15, --min-max, name modes, region files from 1 to 250 (thorough 2500) rows with very uneven line "
        "lengths: rows within 5.01e-4 of the model and byte-identical across thread counts; bigwigvaluesoverbed: "
        "per-base values of covered bases equal the stored float32.",
        assumptions=[
            "what bigwigvaluesoverbed prints for uncovered bases (0) is recorded, not demanded",
            "the name of a 3-column BED row when column 4 is requested (empty string, exit 0) is counted, not judged",
        ],
        technique="runtime monitoring: per-base reference model, cross-thread-count differential",
    ),
    "C18": dict(
        require_observed=['files', 'op_sequences', 'chunker_calls', 'end_to_end_comparisons'],
        level="exploration",
        exhaustive=True,
        floor=50,
        builds=["harness"],
        legs=lambda tier, seed, scratch: [
            dict(cmd="c18i", name="c18-index", cases=_count("c18i-count", tier), stall_s=120),
            dict(cmd="c18v", name="c18-fileview", cases=_q(tier, 25, 45), stall_s=300),
            dict(cmd="c18s", name="c18-chunker", cases=_count("c18i-count", tier), stall_s=120),
        ],
        rule="Exhaustive small worlds, independent of the seed. index_chroms: every run-length vector in {1,2,3,5,9}^{1..4} "
        "(780) x chromosome names {ASCII, multi-byte UTF-8} x line pattern {uniform, mixed lengths, one ~300-byte line at "
        "EVERY line position, one 9 KB / 21 KB line (longer than a BufReader fill) first / middle / last} x {final newline, none}; the result must equal the linear scan's (offset, name) list, and "
        "for the uniform / long-first-line files the parallel source fed with the returned index must produce the same "
        "sink bytes as the serial source. Ungrouped variants (a chromosome reappears at the end / a foreign run strictly "
        "inside another) are judged only by the weaker condition: None, or the parallel writer fed with the index ends "
        "in an error. FileView: a byte-array model of the window with clamping semantics; ALL windows [a,b) of a 24-byte "
        "(quick) / 44-byte (thorough) file incl. b past the end and u64::MAX x ALL sequences of 3 (thorough 4) "
        "operations over {read 0/1/7/1000, Start 0/3/1000, Current -1000/-2/0/2/1000, End -1000/-3/0/5}; short reads "
        "are legal, wrong bytes / positions / panics are not. split_file_into_chunks_by_size: the same files, every "
        "chunk count 1..lines+2: chunks contiguous, cover [0,size) once, every cut at a line start. Non-trivial = >= 2 "
        "runs (index, chunker) / every window start (FileView).",
        assumptions=["scratch files live under /verif/.work (ordinary file system)"],
        technique="runtime monitoring: exhaustive small-world enumeration against linear-scan / byte-array models",
    ),
    "C19": dict(
        level="exploration",
        floor=50,
        builds=["harness", "cli"],
        legs=lambda tier, seed, scratch: [
            dict(cmd="c19g", name="c19-generated-schema", cases=41),
            dict(cmd="c19t", name="c19-parser-totality-grammar", cases=_q(tier, 1500, 100000), stall_s=20),
            dict(cmd="c19x", name="c19-parser-totality-short-strings", cases=170, stall_s=60),
        ] + __import__("c19_tool").legs(tier, seed, scratch),
        rule="Leg 1: for every extra-column count 0..40: bed_autosql(rest) parses and its last declaration has 3+n fields; "
        "through BigBedWrite (generated / supplied custom schema, also with a helper type first, CRLF line ends, tabs / VT / FF "
        "as separators, snake_case field and table names / default) the header field_count is 3+n / 3+n / 3 and "
        "autosql() returns the text verbatim (default = BED3). Leg 2: grammar-based autoSql generator (simple/object/"
        "table, index/unique/primary/auto, sized and named arrays, enum/set lists, nested declarations, comments with odd "
        "characters, varying whitespace): the schema, EVERY character prefix, every token prefix, and every single-token "
        "deletion, duplication and neighbour swap is parsed under catch_unwind with the cfg-hook divergence monitor in "
        "the enum/set loops (more list values than input bytes proves non-termination) and the quiescence watchdog. Leg "
        "3 (exhaustive): all strings of <= 5 tokens over {( ) [ ] , ; quote space enum set table x int}, concatenated "
        "and space-separated, plus all 4-token strings inside a table body. Leg 4: the bedtobigbed binary with and "
        "without --autosql for 13 (quick) / 41 (thorough) column counts, header read back through the library. "
        "Non-trivial = every case; distinct by schema text / column count.",
        assumptions=["field count is checked only for the single-table schemas bigBed uses; multi-declaration texts are used for totality only"],
        technique="runtime monitoring: generator-vs-header oracle + totality monitors (panic, divergence hook, watchdog)",
    ),
    "C07": dict(
        level="exploration",
        floor=50,
        builds=["harness"],
        legs=_legs_simple("c07", 12000, 200000),
        rule=GEN_NOTE + "items_per_slot in {1,2,3,5} and block_size in {2,3,4} so a zoom level spans several blocks; manual "
        "resolutions {1,4,7,10,13,100,400,1000,...} two times out of three (including lists that are not ascending, "
        "repeat a size or contain 0: the levels must still be listed strictly increasing). Every zoom block of every level is decoded "
        "by the independent walker (harness/src/walk.rs) and each record compared with statistics recomputed from the "
        "input (covered bases exact, min/max exact, sum/sumsq within 2 ulp + 1e-6 * sum|term|); per chromosome the "
        "records' covered bases must add up to the data's; levels strictly increasing; reader's get_zoom_interval = "
        "walker's records on the full span and must/may sets on sub-ranges from record boundaries (a quarter of the "
        "sub-range queries through get_zoom_interval_move on a fresh reader); cfg-hook invariant: "
        "the tiling cursor never moves before the start of the value being added. Non-trivial = the file has >= 2 zoom "
        "records in total.",
        assumptions=["libdeflater (a generic zlib implementation) is trusted to inflate blocks for the walker"],
    ),
    "C08": dict(
        level="exploration",
        floor=50,
        builds=["harness"],
        legs=_legs_simple("c08", 12000, 200000),
        rule=GEN_NOTE + "Same oracle as C07 with the per-base coverage depth of the entries as the signal (depth array built "
        "per base; only covered bases count). No entry (0,0) is generated (that input is C02's finding).",
        assumptions=["libdeflater is trusted to inflate blocks for the walker"],
    ),
}
def _c20_prop():
    import c20
    return c20.PROP


NOT_APPLICABLE = {}


def _late():
    """Modules with Python-side oracles: importing them registers their replayers."""
    import c09  # noqa: F401
    import c10  # noqa: F401
    import c20
    PROPS["C20"] = c20.PROP
    c20.register()


_late()


def _late2():
    import c11_tool  # noqa: F401
    import c15_tool  # noqa: F401
    import c16  # noqa: F401
    import c17_tool  # noqa: F401


_late2()


LEVEL_TEXT = {
    "C01": "Exploration with a reference oracle: 10 000 (quick) / 300 000 (thorough) generated (input, option) pairs are written through the public writer and read back; the answer must equal the input bit for bit. Held on what was generated, nothing more: the space of inputs x options is infinite, so exploration aimed at the boundary classes the property names is the strongest level this family offers here.",
    "C02": "Exploration with a reference oracle (as C01) for bigBed: entries compared as sequences, item count, autoSql verbatim, chromosome table. Sampled, not exhaustive.",
    "C03": "Exploration over query *histories*: one live reader per file, 120-300 queries each, every answer compared with a stateless model and across plain / caching / reopened readers, plus a concurrent leg for reopened readers and a dedicated 5000-entry cache-reset scenario. Held on the histories generated.",
    "C04": "Exploration with a three-valued (must / may / must-not) oracle over long-then-short bigBed layouts packed into small blocks and nodes; sampled.",
    "C05": "Exhaustive over the stated finite space (every n <= 40/90, every fan-out <= 5/9, one and three chromosomes, non-overlapping and overlapping block spans, every boundary query up to a deterministic thinning): for these shapes the claim is complete; beyond N and B it is not made.",
    "C06": "Exploration with a per-base oracle (exact arithmetic where the value class allows it); sampled inputs, both file types, both pass modes, library and info tools.",
    "C07": "Exploration: every zoom record of every level of every generated file is recomputed from the input by an independent walker + per-base model, plus a hook invariant inside the tiling loop. Sampled inputs aimed at gap/resolution relations.",
    "C08": "As C07 with the coverage-depth function as the signal.",
    "C09": "Exploration with an independent decoder as oracle (translation-validation flavour, but over sampled outputs, so claimed as exploration).",
    "C10": "Exploration over a cross product of layouts produced by an independent encoder; the product is covered cell-wise (tags in the evidence), contents are sampled. Thorough adds memcheck.",
    "C11": "Exploration over schedules: differential digests across worker counts, channel sizes, buffering, sources and seeded delay policies, with a trace monitor that reports which hand-off classes and how many distinct interleavings were actually observed; ThreadSanitizer in thorough. Schedules are sampled, never enumerated.",
    "C12": "Layer 1 is exhaustive at call granularity for k <= 5/6 writes (complete for that bound); layers 2-4 (delay-injected threads, Miri many-seeds, ThreadSanitizer) sample real interleavings and give definite verdicts for data races, UB and deadlock on the executions they see.",
    "C13": "Exploration by fault-class injection: every violation class x position x source x pass mode cell is reached (listed in the evidence) on sampled base inputs; termination is decided by a logical divergence hook first, a quiescence watchdog with isolated re-runs second.",
    "C14": "Fault enumeration: exhaustive over the operation indices of each recorded run (every prefix as a crash point, every index as a fault, single and from-k-on), over sampled small inputs and two schedules per input.",
    "C15": "Exploration with a per-base oracle over library streams (exact arithmetic) and over the merge tool's output; merge_into exhaustively on a small grid.",
    "C16": "Exploration of the built binaries end to end over a flag matrix with a text-level differential oracle; sampled.",
    "C17": "Exploration with a per-base oracle (library) and cross-thread-count differential (tool); sampled.",
    "C18": "Exhaustive small worlds (all run-length vectors, all long-line positions, all windows x operation sequences, all chunk counts) against linear-scan / byte-array models; complete for the enumerated sizes.",
    "C19": "Exploration + exhaustive short strings: generated schemas with all prefixes and single-token mutations, all <= 5-token strings over the delimiter alphabet, under panic / divergence / watchdog monitors; generator-vs-header agreement for every column count 0..40.",
    "C20": "Exploration of the real values() calls of the built extension and of the six private routines against a per-base numpy / Rust model; exact equality only where the documentation defines the answer, a weak bound elsewhere.",
}
for _k, _v in LEVEL_TEXT.items():
    if _k in PROPS:
        PROPS[_k]["level_text"] = _v
